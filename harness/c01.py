"""C01 - connected instances converge on one running Master."""
import itertools

from runner import Harness
from rig.stubs import rigged
from rig.core import Core
from rig import adapter
from harness import fsm_common as FC
from harness import c02
from spec import election as E
from supervisor.states import ProcessStates

PROPERTY = 'C01'
NICKS = ['alpha', 'bravo', 'charlie', 'delta']


def _situation(src, n, idx=0, tag=''):
    """a real core whose local view, declared Masters, nick order and core list are solver variables"""
    from supvisors.ttypes import SupvisorsInstanceStates as S
    perm = src.pick('nick_order', list(itertools.permutations(range(n))))
    nicks = [NICKS[perm[i]] for i in range(n)]
    core = Core(n, idx, nicks=nicks)
    ids = core.ids
    core_sel = src.pick('core', [()] + [c for k in (1, 2) for c in itertools.permutations(range(n), k)])
    unknown = src.pick_flag('core_has_unknown_name')
    adapter._need(core.mapper, '_core_identifiers')
    core.mapper._core_identifiers = [ids[i] for i in core_sel] + (['10.0.0.99'] if unknown else [])
    ist, declared = [], {}
    for k, i in enumerate(ids):
        c = src.choice(f'ist{k}', list(S))
        adapter.plant_instance_state(core, i, c)
        ist.append(c)
        m = src.choice(f'declared{k}', ids + [''])
        adapter.plant_peer_state_modes(core, i, master_identifier=m)
        declared[i] = m
    return core, ids, ist, declared, nicks, [ids[i] for i in core_sel]


@rigged
def rule(src, n=3):
    """H01a: the real select_master vs the documented rule"""
    from supvisors.ttypes import SupvisorsInstanceStates as S
    core, ids, ist, declared, nicks, core_ids = _situation(src, n)
    # select_master is only evaluated by a live instance: somebody is RUNNING
    running = [ids[k] for k in range(n) if ist[k] == S.RUNNING]
    src.assume(len(running) > 0)
    core.state_modes.select_master()
    chosen = src.conc(core.state_modes.master_identifier)
    decl = {i: src.conc(declared[i]) for i in ids}
    allowed = E.allowed_masters(running, decl, core_ids, dict(zip(ids, nicks)))
    src.check('documented-rule', chosen in allowed, sig='select', chosen=chosen, allowed=sorted(allowed),
              running=running, declared=decl, core=core_ids, nicks=nicks)
    recognised = {decl[i] for i in running if decl[i]}
    if len(recognised) == 1:
        src.reach('single-recognised')
        src.check('single-recognised-master-kept', chosen == list(recognised)[0], sig='kept')
    src.reach('selected')
    src.obs('chosen', chosen)


@rigged
def agreement(src, n=3):
    """H01b: two instances with different identities and the same delivered knowledge select the same Master"""
    from supvisors.ttypes import SupvisorsInstanceStates as S
    chosen = []
    values = None
    for idx in (0, 1):
        core, ids, ist, declared, nicks, core_ids = _situation(_Replay(src, values), n, idx=idx)
        if values is None:
            values = _Replay.last
        src.assume(len([1 for s in ist if s == S.RUNNING]) > 0)
        core.state_modes.select_master()
        chosen.append(src.conc(core.state_modes.master_identifier))
    src.check('same-master-everywhere', chosen[0] == chosen[1], sig='agreement', chosen=chosen)
    src.reach('compared')
    src.obs('chosen', chosen)


class _Replay:
    """hands the same symbolic inputs to the second instance"""
    last = None

    def __init__(self, src, values):
        self.src = src
        self.values = values
        self.mine = {}
        _Replay.last = self.mine

    def _get(self, kind, name, *a):
        if self.values is not None:
            return self.values[name]
        v = getattr(self.src, kind)(name, *a)
        self.mine[name] = v
        return v

    def pick(self, name, values):
        return self._get('pick', name, values)

    def pick_flag(self, name):
        return self._get('pick_flag', name)

    def choice(self, name, values):
        return self._get('choice', name, values)


@rigged
def gate(src, n=2, peer_views='abstract'):
    """H01c: ELECTION is only left for DISTRIBUTION when the context is stable, every RUNNING instance declares the
    same non-empty Master, seen RUNNING, and the local instance is that Master or the Master published DISTRIBUTION"""
    st, ev_from = c02.pick_step(src, n, ['tick', 'state_event'])
    core, sit = FC.build(src, n=n, peer_views=peer_views, fsm_states=['ELECTION'], blank_peer=ev_from, jobs=False,
                         conflict=False)
    sit.update(step=st, ev_from=ev_from, peer_views=peer_views)
    c02.do_step(src, core, sit)
    trace = FC.state_trace(core, sit)
    ids = sit['ids']
    if len(trace) > 1 and trace[1] == 'DISTRIBUTION':
        src.reach('left-for-distribution')
        sm = core.state_modes
        local_view = {i: src.conc(s).name for i, s in sm.local_state_modes.instance_states.items()}
        running = [i for i, s in local_view.items() if s == 'RUNNING']
        views = [local_view] + [{i: src.conc(s).name for i, s in sm.instance_state_modes[p].instance_states.items()}
                                for p in running if p != core.local_identifier]
        stable = E.stable_running(views)
        src.check('stable-context', stable is not None, sig='gate', views=views)
        masters = {src.conc(sm.instance_state_modes[i].master_identifier) for i in running}
        src.check('one-master-declared-by-all', len(masters) == 1 and '' not in masters, sig='gate',
                  masters=sorted(masters))
        m = list(masters)[0]
        src.check('master-seen-running', local_view.get(m) == 'RUNNING', sig='gate')
        if m != core.local_identifier:
            ms = src.conc(sm.instance_state_modes[m].state).name
            src.check('master-already-in-distribution', ms in ('DISTRIBUTION', 'OPERATION', 'CONCILIATION'),
                      sig='gate', master_state=ms)
    else:
        src.reach('stayed-or-left-elsewhere')
    src.obs('trace', trace)


@rigged
def reset(src, n=3):
    """H01d: when the Master leaves RUNNING its identifier is forgotten at once and the change is published"""
    from supvisors.ttypes import SupvisorsInstanceStates as S
    core = Core(n, 0)
    ids = core.ids
    for i in ids:
        core.identify(i)
        core.set_instance_state(i, S.RUNNING)
    m = src.pick('master', ids)
    core.state_modes.master_identifier = m
    who = src.pick('who_fails', ids)
    core.rpc_handler.out.clear()
    core.context.instances[who].state = S.FAILED
    after_failed = core.state_modes.master_identifier
    published = [a[0]['master_identifier'] for nme, a in core.rpc_handler.out if nme == 'send_state_event']
    if who == m:
        src.reach('master-failed')
        src.check('master-forgotten', after_failed == '', sig='reset')
        src.check('reset-published', published and published[-1] == '', sig='reset')
    else:
        src.check('master-kept', after_failed == m, sig='reset')
    fence = src.pick_flag('fence')
    if who != core.local_identifier:
        core.context.invalidate(core.context.instances[who], fence)
        src.check('still-forgotten', core.state_modes.master_identifier == ('' if who == m else m), sig='reset')
    src.reach('done')


@rigged
def master_only(src, n=2, peer_views='abstract'):
    """H01e: no instance starts, stops or conciliates anything automatically unless it is the Master"""
    from supvisors.ttypes import SupvisorsInstanceStates as S, RunningFailureStrategies
    st, ev_from = c02.pick_step(src, n, ['tick', 'state_event', 'process_crash'])
    core, sit = FC.build(src, n=n, peer_views=peer_views, fsm_states=['ELECTION', 'DISTRIBUTION', 'OPERATION',
                         'CONCILIATION'], blank_peer=ev_from, jobs=False, conflict=True,
                         conciliation=('SENICIDE',), failure=('CONTINUE',), pre_hook=_lost_process)
    sit.update(step=st, ev_from=ev_from, peer_views=peer_views)
    # a startable application, so that a Master entering DISTRIBUTION has something to start
    c02.do_step(src, core, sit)
    requests = core.rpc_handler.named('send_start_process', 'send_stop_process')
    handler = core.failure_handler
    pending = bool(handler.stop_application_jobs or handler.restart_application_jobs or handler.restart_process_jobs
                   or core.starter.in_progress() or core.stopper.in_progress())
    # the Master known when the step began and after it: an instance that was not and is not the Master did nothing
    was_master = src.conc(sit['master']) == core.local_identifier
    is_master = src.conc(core.state_modes.master_identifier) == core.local_identifier
    if not was_master and not is_master:
        src.reach('non-master')
        src.check('non-master-sends-no-request', not requests, sig=sit['fsm'], step=st, requests=requests[:3])
        src.check('non-master-plans-nothing', not pending, sig=sit['fsm'], step=st)
    elif requests or pending:
        src.reach('master-acts')
    src.obs('requests', len(requests))


def _lost_process(core, ids):
    """a managed process running only on the peer, with a RESTART_PROCESS strategy, and an application to start"""
    from supvisors.ttypes import RunningFailureStrategies
    core.add_process(ids[0], 'lapp', 'victim', ProcessStates.STOPPED)
    core.add_process(ids[1], 'lapp', 'victim', ProcessStates.STOPPED)
    app = core.context.applications['lapp']
    adapter.set_rules(app.rules, managed=True, start_sequence=1)
    proc = app.processes['victim']
    adapter.set_rules(proc.rules, running_failure_strategy=RunningFailureStrategies.RESTART_PROCESS, start_sequence=1)
    core.process_event(ids[1], 'lapp', 'victim', ProcessStates.RUNNING)
    core.add_process(ids[0], 'fresh', 'todo', ProcessStates.STOPPED)
    fapp = core.context.applications['fresh']
    adapter.set_rules(fapp.rules, managed=True, start_sequence=1)
    adapter.set_rules(fapp.processes['todo'].rules, start_sequence=1)


@rigged
def convergence(src, n=2, faults=1, delays=0, rounds=6, closing=10, configs=('LIST+TIMEOUT', 'CORE'),
                fences=(False, True)):
    """H01f: n real instances under a solver-chosen fault (crash, restart - also before detection -, partition, heal,
    process activity) and held tasks; at quiescence every group of live, mutually reachable, non-isolated instances
    reports one Master, which is one of them, seen RUNNING by all, regarding itself as the Master; every automatic
    request was emitted by an instance that regarded itself as the Master"""
    from harness import cluster_common as CC
    cl, cfg, plan, senders, traces = CC.run_schedule(src, n=n, rounds=rounds, closing=closing, faults=faults,
                                                     delays=delays, configs=configs, fences=fences)
    _converged(src, cl, plan, senders)


def _converged(src, cl, plan, senders, sig=None):
    from harness import cluster_common as CC
    sig = sig or '+'.join(k[0] for _, _, k in plan) or 'none'
    skipped = []
    for g in CC.groups(cl, skipped):
        ids = [c.ident for c in g]
        masters = {c.ident: c.rpc_intf.get_master_identifier() for c in g}
        names = {m.get('identifier', '') for m in masters.values()}
        src.check('one-master-per-group', len(names) == 1 and '' not in names, sig=sig, masters=masters,
                  states={c.ident: c.fsm.state.name for c in g})
        m = list(names)[0]
        src.check('master-is-a-member', m in ids, sig=sig, master=m, group=ids)
        for c in g:
            src.check('master-seen-running', c.context.instances[m].state.name == 'RUNNING', sig=sig, by=c.ident,
                      sees={i: s.state.name for i, s in c.context.instances.items()})
        mc = next(c for c in g if c.ident == m)
        src.check('master-knows-it-is', mc.state_modes.is_master(), sig=sig)
    for who, name, ns, was_master, state in senders:
        src.check('automatic-request-only-from-a-master', was_master, sig=name, sender=who, namespec=ns, state=state)
    src.check('no-internal-error', not cl.criticals(), sig=sig, log=cl.criticals()[:1])
    if skipped:
        src.reach('overlapping-groups-left-out')
    src.reach('quiescent')
    src.obs('masters', {c.ident: c.state_modes.master_identifier for c in cl.live()})


@rigged
def disturbed_distribution(src, n=3):
    """H01h: the convergence claim over the schedules where the Master (or another instance) crashes / restarts while
    a real DISTRIBUTION is pending"""
    from harness import cluster_common as CC
    cl, cfg, plan, senders, traces, sig = CC.distribution_schedule(src, n, 14, ('LIST+TIMEOUT',), (False,))
    _converged(src, cl, plan, senders, sig=sig)


@rigged
def split_brain(src, n=2, max_len=8, configs=('LIST+TIMEOUT', 'CORE'), fences=(False, True)):
    """H01g: a partition that lasts a solver-chosen number of rounds (shorter or longer than failure detection, so each
    side may or may not have kept / elected its own Master) cuts one instance from the others, then heals"""
    from harness import cluster_common as CC

    plan_fn = CC.split_brain_plan(n, max_len)
    cl, cfg, plan, senders, traces = CC.run_schedule(src, n=n, rounds=max(CC.SPLIT_STARTS) + 1 + max_len, closing=12, configs=configs,
                                                     fences=fences, plan_fn=plan_fn)
    _converged(src, cl, plan, senders, sig=CC.separation_length(plan) + '-then-heal')
    if len({c.state_modes.master_identifier for c in cl.live()}) == 1 and len(CC.groups(cl)) == 1:
        src.reach('reunited')


HARNESSES = [
    Harness('H01f', convergence, quick={'n': 2, 'faults': 1, 'delays': 0},
            thorough={'n': 3, 'faults': 2, 'delays': 0}, reach=('quiescent',), timeout=(150, 1800),
            doc='cluster convergence on one running Master after a solver-chosen fault'),
    Harness('H01g', split_brain, quick={'n': 2}, thorough={'n': 3}, reach=('quiescent', 'reunited'), timeout=(150, 1500),
            doc='split brain: partition of 1..8 rounds (each side keeps or elects a Master) then heal'),
    Harness('H01h', disturbed_distribution, quick={'n': 3}, thorough={'n': 3}, reach=('quiescent',), timeout=(120, 300),
            doc='crashes / restarts of the Master or others during a real pending DISTRIBUTION'),
    Harness('H01f-delays', convergence, quick=None, thorough={'n': 2, 'faults': 1, 'delays': 1},
            reach=('quiescent',), timeout=(0, 1800), doc='same with one held task'),
    Harness('H01a', rule, quick={'n': 3}, thorough={'n': 4}, reach=('selected', 'single-recognised'),
            timeout=(120, 1500), doc='real select_master vs the documented selection rule'),
    Harness('H01b', agreement, quick={'n': 2}, thorough={'n': 3}, reach=('compared',), timeout=(90, 900),
            doc='two real instances with the same knowledge select the same Master'),
    Harness('H01c', gate, quick={'n': 2}, thorough={'n': 3}, reach=('left-for-distribution',), timeout=(90, 900),
            doc='exit gate of ELECTION'),
    Harness('H01d', reset, quick={'n': 3}, thorough={'n': 3}, reach=('master-failed', 'done'), timeout=(30, 60),
            doc='Master forgotten when it leaves RUNNING'),
    Harness('H01e', master_only, quick={'n': 2}, thorough={'n': 3}, reach=('non-master', 'master-acts'),
            timeout=(120, 900), doc='only the Master emits automatic requests'),
]
BOUNDS = {'quick': {'rule_instances': 3, 'step_instances': 2}, 'thorough': {'rule_instances': 4, 'step_instances': 3}}
OUTSIDE = ['N > 4 for the rule, N > 3 for the steps and the cluster', 'discovery mode',
           'more than 2 faults / 1 held task in cluster histories', 'non-atomic handshakes, clock skew between threads']
ASSUMPTIONS = ['among several core candidates the lowest nick identifier is expected (the statement only says "a '
               'core_identifiers member"; agreement between instances is checked separately)',
               'pre-state invariant of harness/fsm_common.py']
