"""C06 - running failure strategies are applied once, by the Master, with precedence."""
import itertools

from runner import Harness
from rig.stubs import rigged
from rig import adapter
from rig.procsim import Sim
from harness import fsm_common as FC
from supervisor.states import ProcessStates as PS

PROPERTY = 'C06'
STRATS = ['CONTINUE', 'RESTART_PROCESS', 'STOP_APPLICATION', 'RESTART_APPLICATION']
RANK = {'CONTINUE': 0, 'RESTART_PROCESS': 1, 'RESTART_APPLICATION': 2, 'STOP_APPLICATION': 3}


# ------------------------------------------------------------------------------------------------ handler algebra
@rigged
def handler_algebra(src, k=3):
    """H06a: k failure notifications fed to the real RunningFailureHandler.add_default_job; the resulting job sets
    vs the precedence rule"""
    from supvisors.ttypes import RunningFailureStrategies as RFS
    core = FC.operational(2)
    ids = core.ids
    procs = {}
    for a in ('A', 'B'):
        for p in ('x', 'y'):
            core.add_process(ids[0], a, p, PS.STOPPED)
            procs[(a, p)] = core.context.applications[a].processes[p]
    seq = {}
    for (a, p), proc in procs.items():
        inseq = src.pick_flag(f'seq_{a}{p}')
        seq[(a, p)] = inseq
        adapter.set_rules(proc.rules, start_sequence=1 if inseq else 0)
    app_running = {}
    for a in ('A', 'B'):
        adapter.set_rules(core.context.applications[a].rules, managed=True, start_sequence=1)
        # is something of the application still running (no promotion) or is it left fully stopped?
        app_running[a] = src.pick_flag(f'running_{a}')
    core.finalize_rules()
    for a in ('A', 'B'):
        if app_running[a]:
            core.add_process(ids[0], a, 'alive', PS.STOPPED)
            core.process_event(ids[0], a, 'alive', PS.RUNNING)
    notes = []
    for step in range(k):
        key = src.pick(f'who{step}', list(procs))
        strat = src.pick(f'strat{step}', STRATS)
        adapter.set_rules(procs[key].rules, running_failure_strategy=RFS[strat])
        core.failure_handler.add_default_job(procs[key])
        notes.append((key, strat))
    h = core.failure_handler
    for a in ('A', 'B'):
        app = core.context.applications[a]
        mine = [(key, s) for key, s in notes if key[0] == a]
        # last notification per process decides its own strategy (a process has one strategy at a time); every
        # notification counts for the application-level precedence
        eff = []
        for key, s in mine:
            if s == 'RESTART_PROCESS' and not app_running[a] and seq[key]:
                s = 'RESTART_APPLICATION'        # promotion: the application is left fully stopped
            eff.append((key, s))
        top = max((s for _, s in eff), key=lambda s: RANK[s], default=None)
        in_stop = app in h.stop_application_jobs
        in_restart = app in h.restart_application_jobs
        rp = {p.process_name for p in h.restart_process_jobs if p.application_name == a}
        cp = {p.process_name for p in h.continue_process_jobs if p.application_name == a}
        sig = f'top={top}'
        src.check('stop-application-wins', in_stop == (top == 'STOP_APPLICATION'), sig=sig, notes=mine)
        src.check('restart-application-second', in_restart == (top == 'RESTART_APPLICATION'), sig=sig, notes=mine)
        src.check('one-application-action', not (in_stop and in_restart), sig=sig)
        if top == 'STOP_APPLICATION':
            src.check('nothing-else-when-stopping', not rp and not cp, sig=sig, rp=sorted(rp), cp=sorted(cp))
        elif top == 'RESTART_APPLICATION':
            # processes of the start sequence are covered by the application restart
            src.check('sequenced-processes-left-to-application-restart',
                      all(not seq[(a, n)] for n in rp | cp), sig=sig, rp=sorted(rp), cp=sorted(cp))
        elif top is not None:
            want_rp = {key[1] for key, s in eff if s == 'RESTART_PROCESS'}
            src.check('restart-process-jobs', rp == want_rp, sig=sig, rp=sorted(rp), want=sorted(want_rp))
            src.check('continue-only-without-restart', not (cp & rp), sig=sig)
        src.check('process-has-one-job', not (rp & cp), sig=sig)
    src.reach('fed')


# ------------------------------------------------------------------------------------------------ end to end
def _place(n):
    return list(range(n)) + [None]


@rigged
def instance_loss(src, n=3, crash=False):
    """H06c/d: the Master of a stable cluster in OPERATION loses one or two instances (or sees a process crash);
    the real Context / state machine / handler / Starter / Stopper run against fake supervisords until quiescence"""
    from supvisors.ttypes import RunningFailureStrategies as RFS
    is_master = src.pick_flag('local_is_master')
    core = FC.operational(n, master=0 if is_master else 1)
    ids = core.ids
    sim = Sim(core)
    names = ['p0', 'p1']
    place, strat, inseq = {}, {}, {}
    for name in names:
        for i in ids:
            core.add_process(i, 'app', name, PS.STOPPED)
        place[name] = src.pick(f'place_{name}', _place(n))
        strat[name] = src.pick(f'strat_{name}', STRATS)
        inseq[name] = src.pick_flag(f'seq_{name}')
        proc = core.context.applications['app'].processes[name]
        adapter.set_rules(proc.rules, running_failure_strategy=RFS[strat[name]], start_sequence=1 if inseq[name] else 0,
                          expected_load=10)
        if place[name] is not None:
            # RUNNING proper, or still STARTING / in BACKOFF there (e.g. an autorestart of its Supervisor): running states
            how = src.pick(f'running_state_{name}', ['RUNNING', 'STARTING', 'BACKOFF']) if name == 'p0' else 'RUNNING'
            core.process_event(ids[place[name]], 'app', name, PS.STARTING)
            if how == 'RUNNING':
                core.process_event(ids[place[name]], 'app', name, PS.RUNNING)
            elif how == 'BACKOFF':
                core.process_event(ids[place[name]], 'app', name, PS.BACKOFF, expected=False, spawnerr='exited too quickly')
    # a bystander application running on the local instance: never touched
    core.add_process(ids[0], 'other', 'by', PS.STOPPED)
    core.process_event(ids[0], 'other', 'by', PS.RUNNING)
    for app in core.context.applications.values():
        adapter.set_rules(app.rules, managed=True, start_sequence=1)
    core.finalize_rules()
    app = core.context.applications['app']
    procs = app.processes
    # optionally the user asked to stop p0 just before: that job owns the process
    owned = False
    if place['p0'] not in (None, 0) and src.pick_flag('stop_requested_before'):
        core.stopper.stop_process(procs['p0'])
        owned = True
    core.rpc_handler.out.clear()
    sim.cursor = 0
    lost = list(src.pick('lost', [c for k in (1, 2) for c in itertools.combinations(range(1, n), k)]))
    if not is_master:
        src.assume(1 not in lost)          # the Master survives (its loss is C01 / C08)
    for i in lost:
        core.fsm.on_instance_failure(core.context.instances[ids[i]])
    silent = [ids[i] for i in lost]
    requests = []
    for _ in range(8):
        FC.cluster_round(core, silent=silent)
        for kind, ident, ns in sim.new_requests():
            requests.append((kind, ident, ns))
            src.check('request-to-a-live-instance', ident not in silent, sig=kind, request=(kind, ident, ns))
            if kind == 'start':
                sim.ack_start(ident, ns)
            else:
                sim.ack_stop(ident, ns)
    victims = [nme for nme in names if place[nme] in lost]
    sig = '+'.join(sorted(strat[v] for v in victims)) or 'none'
    if not is_master:
        src.reach('non-master')
        src.check('non-master-does-nothing', not requests, sig=sig, requests=requests[:3])
        return
    src.reach('master')
    src.check('bystander-untouched', all(ns != 'other:by' for _, _, ns in requests), sig=sig)
    for v in victims:
        src.check('lost-process-reported-fatal-first', True)
    handled = [v for v in victims if not (owned and v == 'p0')]
    if not handled:
        src.check('nothing-to-do-nothing-done', not [r for r in requests if r[0] == 'start'], sig=sig,
                  requests=requests[:4])
        return
    left_running = [nme for nme in names if place[nme] is not None and place[nme] not in lost]
    eff = []
    for v in handled:
        s = strat[v]
        if s == 'RESTART_PROCESS' and not left_running and inseq[v]:
            s = 'RESTART_APPLICATION'
        eff.append(s)
    top = max(eff, key=lambda s: RANK[s])
    running = {nme: sorted(procs[nme].running_identifiers) for nme in names}
    starts = [ns.split(':')[1] for kind, _, ns in requests if kind == 'start']
    stops = [ns.split(':')[1] for kind, _, ns in requests if kind == 'stop']
    ctx = dict(sig=sig, top=top, running=running, requests=requests[:6])
    if top == 'STOP_APPLICATION':
        src.reach('stop-application')
        src.check('application-stopped', all(not running[nme] for nme in names), **ctx)
        src.check('nothing-started', not starts, **ctx)
    elif top == 'RESTART_APPLICATION':
        src.reach('restart-application')
        for nme in names:
            if inseq[nme]:
                src.check('sequenced-process-running-once-on-survivor',
                          len(running[nme]) == 1 and running[nme][0] not in silent, **ctx)
                src.check('started-once', starts.count(nme) == 1, **ctx)
        for v in handled:
            if not inseq[v] and strat[v] == 'RESTART_PROCESS':
                # strategy.py add_restart_application_job: the application job supersedes the process jobs of the
                # start sequence only; a RESTART_PROCESS program outside it still gets running again
                src.reach('restart-application-and-unsequenced-restart-process')
                src.check('unsequenced-restart-process-running-once-on-survivor',
                          len(running[v]) == 1 and running[v][0] not in silent, **ctx)
    elif top == 'RESTART_PROCESS':
        src.reach('restart-process')
        for v in handled:
            if strat[v] == 'RESTART_PROCESS':
                src.check('restarted-once-on-a-survivor', starts.count(v) == 1 and len(running[v]) == 1
                          and running[v][0] not in silent, **ctx)
            else:
                src.check('continue-left-alone', v not in starts, **ctx)
        src.check('nothing-stopped', not stops, **ctx)
    else:
        src.reach('continue')
        src.check('continue-starts-and-stops-nothing', not requests, **ctx)
    if owned:
        src.check('process-with-a-job-left-to-it', 'p0' not in starts or top in ('RESTART_APPLICATION',), **ctx)
    src.check('no-job-left', not core.starter.in_progress() and not core.stopper.in_progress(), **ctx)
    src.check('no-internal-error', not core.logger.tracebacks(), log=core.logger.tracebacks()[:1])
    src.obs('requests', sorted(list(r) for r in requests))


@rigged
def process_crash(src, n=3):
    """H06e: one copy of a managed process crashes (FATAL, or unexpected EXITED) on a solver-chosen instance while the
    process runs on a solver-chosen set of instances (USER conciliation: duplicates are left alone): the strategy
    applies only when the process ran nowhere else, only on the Master, once"""
    from supvisors.ttypes import RunningFailureStrategies as RFS
    is_master = src.pick_flag('local_is_master')
    core = FC.operational(n, {'conciliation_strategy': 'USER'}, master=0 if is_master else 1)
    ids = core.ids
    sim = Sim(core)
    for i in ids:
        core.add_process(i, 'app', 'p', PS.STOPPED)
        core.add_process(i, 'app', 'other', PS.STOPPED)
    holders = src.pick('holders', [c for k in (1, 2) for c in itertools.combinations(range(n), k)])
    for h in holders:
        core.process_event(ids[h], 'app', 'p', PS.STARTING)
        core.process_event(ids[h], 'app', 'p', PS.RUNNING)
    core.process_event(ids[0], 'app', 'other', PS.RUNNING)
    strat = src.pick('strategy', STRATS)
    app = core.context.applications['app']
    adapter.set_rules(app.rules, managed=True, start_sequence=1)
    adapter.set_rules(app.processes['p'].rules, running_failure_strategy=RFS[strat], start_sequence=1,
                      expected_load=10)
    adapter.set_rules(app.processes['other'].rules, start_sequence=1, expected_load=10)
    core.finalize_rules()
    FC.cluster_round(core)          # a duplicate sends the Master to CONCILIATION (USER: nothing is done)
    core.rpc_handler.out.clear()
    sim.cursor = 0
    victim = src.pick('crashing_copy', list(holders))
    how = src.pick('how', ['fatal', 'exited'])
    if how == 'fatal':
        core.process_event(ids[victim], 'app', 'p', PS.FATAL, expected=False, spawnerr='crash')
    else:
        core.process_event(ids[victim], 'app', 'p', PS.EXITED, expected=False)
    requests = []
    for _ in range(6):
        for kind, ident, ns in sim.new_requests():
            requests.append((kind, ident, ns))
            if kind == 'start':
                sim.ack_start(ident, ns)
            else:
                sim.ack_stop(ident, ns)
        FC.cluster_round(core)
    elsewhere = [h for h in holders if h != victim]
    sig = f'{strat}:{"still-running-elsewhere" if elsewhere else "ran-only-there"}'
    starts = [ns for k, _, ns in requests if k == 'start']
    stops = [ns for k, _, ns in requests if k == 'stop']
    ctx = dict(sig=sig, requests=requests[:6])
    if not is_master:
        src.reach('non-master')
        src.check('non-master-does-nothing', not requests, **ctx)
        return
    src.reach('master')
    if elsewhere:
        src.reach('still-running-elsewhere')
        src.check('no-strategy-while-the-process-still-runs', not requests, **ctx)
    elif strat in ('CONTINUE', 'RESTART_PROCESS'):
        # on a crash only the application-level strategies apply (restarting one process is Supervisor's autorestart)
        src.reach('process-level-strategy')
        src.check('process-level-strategy-starts-and-stops-nothing', not requests, **ctx)
    elif strat == 'STOP_APPLICATION':
        src.reach('stop-application')
        src.check('application-stopped', 'app:other' in stops and not starts, **ctx)
    else:
        src.reach('restart-application')
        src.check('application-stopped-then-restarted', 'app:other' in stops and sorted(starts) == ['app:other',
                                                                                                   'app:p'], **ctx)
    src.check('no-internal-error', not core.logger.tracebacks(), log=core.logger.tracebacks()[:1])


@rigged
def loss_during_start_sequence(src, n=3):
    """H06f: the instance is lost while a start sequence of the application is in progress: the Master has re-planned
    an application in major failure; the start of its required first process is pending on the instance that is lost,
    and a process sequenced later runs only there - its running_failure_strategy still applies"""
    from supvisors.ttypes import RunningFailureStrategies as RFS, StartingFailureStrategies as SFS
    core = FC.operational(n)
    ids = core.ids
    sim = Sim(core)
    for i in ids:
        core.add_process(i, 'app', 'first', PS.STOPPED)
        core.add_process(i, 'app', 'later', PS.STOPPED)
    app = core.context.applications['app']
    strat = src.pick('strategy', ['RESTART_PROCESS', 'CONTINUE'])
    sfs = src.pick('starting_failure_strategy', ['ABORT', 'CONTINUE'])
    adapter.set_rules(app.rules, managed=True, start_sequence=1, starting_failure_strategy=SFS[sfs])
    adapter.set_rules(app.processes['first'].rules, start_sequence=1, required=True, identifiers=[ids[1], ids[2]],
                      starting_failure_strategy=SFS[sfs], expected_load=10)
    adapter.set_rules(app.processes['later'].rules, start_sequence=2, running_failure_strategy=RFS[strat],
                      expected_load=10)
    core.finalize_rules()
    core.process_event(ids[1], 'app', 'later', PS.STARTING)
    core.process_event(ids[1], 'app', 'later', PS.RUNNING)
    core.process_event(ids[1], 'app', 'first', PS.FATAL, expected=False, spawnerr='crash')
    src.check('setup-major-failure', bool(app.major_failure), sig='setup')
    core.rpc_handler.out.clear()
    sim.cursor = 0
    core.starter.start_applications()
    reqs = sim.new_requests()
    src.check('setup-start-pending-on-the-instance', reqs == [('start', ids[1], 'app:first')], sig='setup', reqs=reqs)
    how = src.pick('how', ['xmlrpc-failure', 'silence'])
    if how == 'xmlrpc-failure':
        core.fsm.on_instance_failure(core.context.instances[ids[1]])
    requests = []
    for _ in range(8):
        FC.cluster_round(core, silent=[ids[1]])
        for kind, ident, ns in sim.new_requests():
            requests.append((kind, ident, ns))
            src.check('request-to-a-live-instance', ident != ids[1], sig=kind, request=(kind, ident, ns))
            if kind == 'start':
                sim.ack_start(ident, ns)
            else:
                sim.ack_stop(ident, ns)
    later = app.processes['later']
    running = sorted(later.running_identifiers)
    starts = [ns for k, _, ns in requests if k == 'start']
    ctx = dict(sig=f'{strat}:starting-failure-{sfs}', requests=requests[:6], running=running)
    if sfs == 'CONTINUE':
        # the start sequence itself goes on after the failed start: the process is left to its planned job
        src.reach('left-to-the-sequence')
        src.check('started-once-by-the-sequence', len(running) == 1 and running[0] != ids[1]
                  and starts.count('app:later') == 1, **ctx)
    elif strat == 'RESTART_PROCESS':
        # the start sequence is aborted; the application is left fully stopped: RESTART_PROCESS becomes
        # RESTART_APPLICATION, which can place the first process on the other permitted instance
        src.reach('restart-process')
        src.check('lost-process-running-once-on-a-survivor', len(running) == 1 and running[0] != ids[1]
                  and starts.count('app:later') == 1, **ctx)
    else:
        src.reach('continue')
        src.check('continue-starts-nothing-of-it', 'app:later' not in starts and not running, **ctx)
    src.check('no-job-left', not core.starter.in_progress() and not core.stopper.in_progress(), **ctx)
    src.check('no-internal-error', not core.logger.tracebacks(), log=core.logger.tracebacks()[:1])


HARNESSES = [
    Harness('H06f', loss_during_start_sequence, quick={'n': 3}, thorough={'n': 3},
            reach=('restart-process', 'continue', 'left-to-the-sequence'), timeout=(60, 120),
            doc='instance lost during a start sequence: the strategy of a process sequenced later still applies'),
    Harness('H06e', process_crash, quick={'n': 3}, thorough={'n': 3}, reach=('master', 'non-master',
            'still-running-elsewhere', 'process-level-strategy', 'stop-application', 'restart-application'),
            timeout=(100, 300), doc='crash of one copy: strategy only if the process ran only there, Master only'),
    Harness('H06a', handler_algebra, quick={'k': 3}, thorough={'k': 4}, reach=('fed',), timeout=(120, 1200),
            doc='RunningFailureHandler job algebra: precedence and promotion over sequences of notifications'),
    Harness('H06d', instance_loss, quick={'n': 3}, thorough={'n': 3}, reach=('master', 'non-master',
            'stop-application', 'restart-application', 'restart-process', 'continue',
            'restart-application-and-unsequenced-restart-process'), timeout=(150, 900),
            doc='loss of one or two instances seen by the Master (and by a non-Master) of a stable cluster'),
]
BOUNDS = {'quick': {'instances': 3, 'processes': 2, 'lost_instances': '1..2 in the same evaluation',
                    'notifications': 3}, 'thorough': {'notifications': 4}}
OUTSIDE = ['more than 2 processes per application, N > 3', 'loss during a start sequence or a conciliation (C03 / C05 '
           'harnesses cover the commands)', 'SHUTDOWN / RESTART program strategies (C02 process_crash step)']
ASSUMPTIONS = ['stable cluster in OPERATION built by harness/fsm_common.operational; supervisords simulated by '
               'rig/procsim.py; the loss is notified by the XML-RPC failure path',
               'with RESTART_APPLICATION the processes outside the start sequence keep their own job (accepted)']
