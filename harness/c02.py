"""C02 - the Supvisors state only moves along the documented state graph."""
from runner import Harness
from rig.stubs import rigged
from rig import adapter
from harness import fsm_common as FC
from spec import fsm_graph as G
from symx import sand

PROPERTY = 'C02'
BASE_STEPS = ['tick', 'state_event', 'restart', 'shutdown', 'end_sync', 'process_crash']
# peer_failure: the INSTANCE_FAILURE notification of a proxy thread (an XML-RPC to that peer failed) - the peer may be the Master
STEPS = BASE_STEPS + ['peer_failure']


def do_step(src, core, sit, steps=STEPS):
    """one real entry point of the state machine with arbitrary arguments; returns the name of the step"""
    from supvisors.ttypes import SupvisorsStates as F, SupvisorsInstanceStates as S
    from supervisor.states import ProcessStates
    ids = sit['ids']
    step = sit['step']
    if step == 'tick':
        core.tick()
    elif step == 'state_event':
        k = sit['ev_from']
        status = core.context.instances[ids[k]]
        new_state = src.choice('ev_state', [F[x] for x in FC.FSM])
        new_master = src.choice('ev_master', ids + [''])
        dom = list(S) if sit.get('peer_views') == 'full' else [S.RUNNING, S.STOPPED, S.CHECKING]
        view = {i: src.choice(f'ev_view{j}', dom) for j, i in enumerate(ids)}
        payload = {'fsm_statecode': new_state.value, 'fsm_statename': new_state.name, 'degraded_mode': False,
                   'discovery_mode': False, 'master_identifier': new_master, 'starting_jobs': False,
                   'stopping_jobs': False,
                   'instance_states': {i: v.name for i, v in view.items()}}
        # a real publication obeys the invariant of its publisher (I3)
        from symx import sor
        src.assume(FC.declares_running_master(new_master, view, ids))
        core.fsm.on_state_event(status, payload)
        sit['peers'][k - 1] = {'state': new_state, 'master': new_master, 'view': view}
    elif step in ('restart', 'shutdown', 'end_sync'):
        # through the real XML-RPC entry points (they gate on the Supvisors state); a documented fault is fine
        from supervisor.xmlrpc import RPCError
        try:
            if step == 'restart':
                core.rpc_intf.restart()
            elif step == 'shutdown':
                core.rpc_intf.shutdown()
            else:
                core.rpc_intf.end_sync(src.choice('end_sync_master', ids + ['']))
        except RPCError:
            sit['fault'] = True
        except (RuntimeError, ValueError) as exc:
            # finding F6 (C16/C17): raised instead of the documented fault when the Master was just reset
            if 'no Master instance' not in str(exc):
                raise
            sit['fault'] = True
    elif step == 'peer_failure':
        core.fsm.on_instance_failure(core.context.instances[ids[sit['ev_from']]])
    elif step == 'process_crash':
        from supvisors.ttypes import RunningFailureStrategies
        strategy = src.choice('rfs', list(RunningFailureStrategies))
        proc = core.context.applications['capp'].processes['other']
        adapter.set_rules(proc.rules, running_failure_strategy=strategy)
        core.process_event(ids[0], 'capp', 'other', ProcessStates.FATAL, expected=False)
    return step


def check_graph(src, core, sit):
    trace = FC.state_trace(core, sit)
    for a, b in zip(trace, trace[1:]):
        src.check('documented-edge', G.is_edge(a, b), sig=f'{a}->{b}', step=sit.get('step'))
    # conditions at the instant of each publication (the payload carries the Master and the local view)
    prev = sit['fsm']
    for name, args in core.rpc_handler.out:
        if name != 'send_state_event':
            continue
        p = args[0]
        st = p['fsm_statename']
        if st != prev and st in G.NEED_MASTER:
            m = p['master_identifier']
            m = src.conc(m)
            cause = ''
            if st == 'SHUTTING_DOWN' and sit.get('step') != 'shutdown':
                cause = ':failure=' + src.conc(core.options.supvisors_failure_strategy).name
            src.check('entered-with-running-master', bool(m) and src.conc(p['instance_states'].get(m)) == 'RUNNING',
                      sig=f'{prev}->{st}{cause}', master=m, step=sit.get('step'))
            if m and m != core.local_identifier:
                ms = src.conc(core.state_modes.instance_state_modes[m].state)
                src.check('after-master', ms.name in G.AFTER[st], sig=f'{st}-while-master-{ms.name}{cause}',
                          step=sit.get('step'))
        prev = st
    return trace


def check_invariant(src, core, sit):
    """the induction closes: the representation invariant assumed on the pre-state (fsm_common.assume_invariant) holds
    again after the step"""
    from supvisors.ttypes import SupvisorsInstanceStates as S, SupvisorsStates as F
    step = sit.get('step')
    m = src.conc(core.state_modes.master_identifier)
    user = src.conc(sit['has_user'])
    if m and not user:
        seen = src.conc(core.context.instances[m].state)
        src.check('invariant-I1-local-master-is-seen-running', seen == S.RUNNING, sig=f'{step}:master-seen-{seen.name}',
                  master=m)
    for name, args in core.rpc_handler.out:
        if name == 'send_state_event':
            p = args[0]
            pm = src.conc(p['master_identifier'])
            if user:
                continue
            src.check('invariant-I3-published-master-is-published-running',
                      not pm or src.conc(p['instance_states'].get(pm)) == 'RUNNING', sig=f'{step}', master=pm)
    for i in sit['ids'][1:]:
        seen = src.conc(core.context.instances[i].state)
        if seen == S.ISOLATED:
            sm = core.state_modes.instance_state_modes[i]
            src.check('invariant-I2-nothing-kept-about-a-gone-peer',
                      sand(sm.state == F.OFF, sm.master_identifier == ''), sig=f'{step}:{seen.name}', peer=i)


def pick_step(src, n, steps=STEPS):
    step = src.pick('step', list(steps))
    ev_from = src.pick_int('ev_from', 1, n - 1) if step in ('state_event', 'peer_failure') else None
    return step, ev_from


@rigged
def step(src, n=2, peer_views='abstract', steps=STEPS, fsm_states=FC.FSM, sync=FC.SYNC_CHOICES):
    st, ev_from = pick_step(src, n, steps)

    crashed = []

    def crashed_program(core, ids):
        # an application in failure that the Master will try again when it enters DISTRIBUTION: its program has really
        # crashed, nobody can take it, and its running failure strategy ends Supvisors - the request comes
        # back synchronously while the DISTRIBUTION state is being entered
        from supvisors.ttypes import RunningFailureStrategies as RFS
        from supervisor.states import ProcessStates
        mode = src.pick('crashed_program_that_nobody_can_take', [None, 'SHUTDOWN', 'RESTART'])
        crashed.append(mode)
        if mode:
            proc = core.add_process(ids[0], 'fapp', 'gone', ProcessStates.STOPPED)
            adapter.set_rules(core.context.applications['fapp'].rules, managed=True, start_sequence=1)
            # (its identifiers rule only permits an instance that does not know the program)
            adapter.set_rules(proc.rules, start_sequence=1, required=True, running_failure_strategy=RFS[mode],
                              identifiers=[ids[1]])
            core.process_event(ids[0], 'fapp', 'gone', ProcessStates.FATAL, expected=False, spawnerr='crash')
    core, sit = FC.build(src, n=n, peer_views=peer_views, fsm_states=fsm_states, blank_peer=ev_from, sync=sync,
                         pre_hook=crashed_program if st == 'tick' and n == 2 else None)
    sit.update(step=st, ev_from=ev_from, peer_views=peer_views)
    if st == 'state_event':
        # the listener only hands over what Context.is_valid admits: nothing from an ISOLATED origin (C13)
        from supvisors.ttypes import SupvisorsInstanceStates as S
        src.assume(sit['ist'][ev_from] != S.ISOLATED)
    if st in ('restart', 'shutdown', 'end_sync'):
        # XML-RPCs are served by a live instance: beyond OFF the local instance sees itself RUNNING
        from supvisors.ttypes import SupvisorsInstanceStates as S
        src.assume(sit['ist'][0] == S.RUNNING)
    do_step(src, core, sit, steps)
    trace = check_graph(src, core, sit)
    if crashed and crashed[0] and sit['fsm'] == 'ELECTION' and len(trace) > 2:
        src.reach('strategy-applied-while-entering-distribution')
    check_invariant(src, core, sit)
    src.reach('moved' if len(trace) > 1 else 'stayed')
    src.check('final-is-terminal', sit['fsm'] != 'FINAL' or trace == ['FINAL'])
    src.check('no-internal-error', not core.logger.tracebacks(), log=core.logger.tracebacks()[:1])
    src.obs('trace', trace)


def _classify(observations):
    return dict(observations).get('trace')


HARNESSES = [
    Harness('H02a', step, quick={'n': 2, 'sync': ('LIST', 'TIMEOUT', 'CORE', 'USER')},
            thorough={'n': 2, 'peer_views': 'full'}, reach=('moved', 'stayed'), timeout=(240, 1800),
            classify=_classify,
            doc='one real FSM entry point (tick, peer state event, restart, shutdown, end_sync, process crash) from '
                'an arbitrary symbolic situation, N=2; published state sequence vs the documented graph'),
    Harness('H02a-n3-election', step, quick={'n': 3, 'peer_views': 'abstract', 'steps': ('tick',),
                                             'fsm_states': ('ELECTION',), 'sync': ('LIST', 'TIMEOUT')},
            thorough=None, reach=('moved', 'stayed'), timeout=(120, 0), classify=_classify,
            doc='N=3, one evaluation of ELECTION: a third instance may be the Master that a peer still declares while '
                'the local instance does not see it RUNNING'),
    Harness('H02a-n3', step, quick=None, thorough={'n': 3, 'peer_views': 'abstract'}, reach=('moved', 'stayed'),
            timeout=(0, 1500), classify=_classify,
            doc='same with N=3 and the 3-valued abstraction of the peers views'),
]
BOUNDS = {'quick': {'instances': 2, 'steps': 1, 'entry_points': STEPS},
          'thorough': {'instances': '2 (full peer views) and 3 (3-valued peer views)', 'steps': 1}}
OUTSIDE = ['N > 3', 'discovery mode', 'sequences of more than one step from the symbolic situation (the situation is '
           'the induction hypothesis; histories are covered by the cluster runs)']
ASSUMPTIONS = ['pre-state invariant I1-I3 of harness/fsm_common.py, re-asserted after every step (induction closed) except I1 '
               'and I3 under the USER synchro option, where accept_master() makes them non-inductive: for USER '
               'configurations the claim is conditional on them',
               'pending jobs are real command objects planted in Starter/Stopper.current_jobs',
               'uptime in {5, 20, 1000} s against SYNCHRO_TIMEOUT_MIN=15 and synchro_timeout=30']
