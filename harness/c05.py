"""C05 - conflicts are detected and conciliated exactly as the strategy says."""
import itertools

from runner import Harness
from rig.stubs import rigged
from rig import adapter
from rig.procsim import Sim
from harness import fsm_common as FC
from supervisor.states import ProcessStates as PS

PROPERTY = 'C05'
STRATEGIES = ['SENICIDE', 'INFANTICIDE', 'USER', 'STOP', 'RESTART', 'RUNNING_FAILURE']


def _subsets(n, minimum=0):
    return [c for k in range(minimum, n + 1) for c in itertools.combinations(range(n), k)]


def _setup(src, n, nconf, strategies=STRATEGIES, same_app=True, states=False):
    from supvisors.ttypes import ConciliationStrategies, RunningFailureStrategies
    strat = src.pick('strategy', list(strategies))
    core = FC.operational(n, {'conciliation_strategy': strat})
    ids = core.ids
    managed = src.pick_flag('managed')
    procs = []
    for k in range(nconf):
        group = 'capp' if same_app else f'capp{k}'
        name = f'c{k}'
        where = src.pick(f'where{k}', _subsets(n, 1))
        for i in range(n):
            core.add_process(ids[i], group, name, PS.STOPPED, stopwaitsecs=100)
        p = core.context.applications[group].processes[name]
        for i in where:
            core.process_event(ids[i], group, name, PS.STARTING)
            # "running" in the statement is STARTING, BACKOFF or RUNNING: each copy is in any of them
            st = src.pick(f'state{k}_{i}', ['RUNNING', 'STARTING', 'BACKOFF']) if states else 'RUNNING'
            if st != 'STARTING':
                core.process_event(ids[i], group, name, getattr(PS, st))
        ups = {}
        for i in where:
            u = src.int(f'uptime{k}_{i}', 0, 100000)
            adapter.set_info(p, ids[i], uptime=u)
            ups[i] = u
        rfs = src.pick(f'rfs{k}', ['CONTINUE', 'RESTART_PROCESS', 'STOP_APPLICATION', 'RESTART_APPLICATION']) \
            if strat == 'RUNNING_FAILURE' else 'CONTINUE'
        adapter.set_rules(p.rules, running_failure_strategy=RunningFailureStrategies[rfs], start_sequence=1)
        procs.append({'proc': p, 'where': list(where), 'uptime': ups, 'rfs': rfs, 'ns': f'{group}:{name}'})
    # a bystander of the same application running once, never to be stopped by a conciliation
    core.add_process(ids[0], 'capp' if same_app else 'capp0', 'bystander', PS.STOPPED)
    core.process_event(ids[0], 'capp' if same_app else 'capp0', 'bystander', PS.RUNNING)
    for app in core.context.applications.values():
        adapter.set_rules(app.rules, managed=managed, start_sequence=1)
    core.finalize_rules()
    # one of the peers may be in the middle of its handshake: its process table is already loaded (the conflict is
    # visible) but it is not admitted yet
    joining = src.pick('joining_instance', [None] + list(range(1, n)))
    if joining is not None:
        from supvisors.ttypes import SupvisorsInstanceStates as S
        adapter.plant_instance_state(core, ids[joining], S.CHECKING)
    core.joining = joining
    core.rpc_handler.out.clear()
    return core, strat, managed, procs


def _expected_stops(strat, procs, ids):
    """{namespec: set of identifiers that must be asked to stop}; for equal uptimes any single copy may be kept,
    returned as a list of allowed sets per process"""
    out = {}
    for p in procs:
        w = p['where']
        if len(w) < 2:
            continue
        if strat in ('STOP', 'RESTART', 'RUNNING_FAILURE'):
            out[p['ns']] = [{ids[i] for i in w}]
        elif strat == 'USER':
            out[p['ns']] = [set()]
        else:
            best = min if strat == 'SENICIDE' else max
            val = best(p['uptime'][i] for i in w)
            keepers = [i for i in w if p['uptime'][i] == val]
            out[p['ns']] = [{ids[i] for i in w if i != k} for k in keepers]
    return out


@rigged
def conciliate(src, n=3, nconf=2, strategies=STRATEGIES, same_app=True, closure=True, states=False):
    """H05b/c/d: the real OperationState / ConciliationState / conciliate_conflicts / strategies / Stopper / Starter /
    RunningFailureHandler from a Master in OPERATION with symbolic duplicates"""
    core, strat, managed, procs = _setup(src, n, nconf, strategies, same_app, states)
    ids = core.ids
    sim = Sim(core)
    conflicts = [p for p in procs if len(p['where']) >= 2]
    src.check('detection', core.context.conflicting() == bool(conflicts and managed), sig='conflicting')
    src.check('conflict-list', {p.namespec for p in core.context.conflicts()}
              == ({p['ns'] for p in conflicts} if managed else set()), sig='conflicts')
    # one evaluation of the state machine (what a tick or a Master publication triggers), without refreshing times
    core.fsm.next()
    state = core.fsm.state.name
    if not (conflicts and managed):
        src.reach('no-conflict')
        src.check('no-conflict-no-conciliation', state == 'OPERATION', sig='entry', state=state)
        src.check('nothing-stopped-without-conflict', not sim.new_requests(), sig='entry')
        return
    src.reach('conflict')
    src.check('conflict-enters-conciliation', state == 'CONCILIATION', sig='entry', state=state)
    reqs = sim.new_requests()
    stops = {}
    for kind, ident, ns in reqs:
        src.check('conciliation-only-stops', kind == 'stop', sig=strat, request=(kind, ident, ns))
        stops.setdefault(ns, set()).add(ident)
    expected = _expected_stops(strat, conflicts, ids)
    for ns, allowed in expected.items():
        got = stops.get(ns, set())
        src.check('stops-where-the-strategy-says', any(got == a for a in allowed), sig=strat, namespec=ns,
                  got=sorted(got), allowed=[sorted(a) for a in allowed])
    for ns in stops:
        src.check('only-conflicting-processes-stopped', ns in expected, sig=strat, namespec=ns)
    if core.joining is not None:
        src.reach('during-handshake')
        return          # the events of an instance that is not admitted yet are not processed (C12 finding F7)
    if not closure:
        return
    # --- closure: the stops are acknowledged in a symbolic order, ticks in between
    pending = list(reqs)
    order = src.pick('ack_order', ['fifo', 'lifo'])
    if order == 'lifo':
        pending.reverse()
    tick_between = src.pick_flag('tick_between_acks')
    # every Supervisor acknowledges at once (STOPPING); the processes then die in the chosen order, possibly slowly
    # (stopwaitsecs = 100: a slow stop is not a given-up stop, which is the subject of C10)
    for kind, ident, ns in pending:
        sim.event(ident, ns, PS.STOPPING)
    for kind, ident, ns in pending:
        sim.event(ident, ns, PS.STOPPED)
        if tick_between:
            FC.cluster_round(core)
    later = []
    for _ in range(6):
        FC.cluster_round(core)
        for kind, ident, ns in sim.new_requests():
            later.append((kind, ident, ns))
            if kind == 'start':
                sim.ack_start(ident, ns)
            else:
                sim.ack_stop(ident, ns)
    state = core.fsm.state.name
    if strat == 'USER':
        src.reach('user')
        src.check('user-stays-in-conciliation', state == 'CONCILIATION' and not later, sig='USER', state=state)
        return
    src.reach('closed')
    src.check('no-conflict-remains', not core.context.conflicting(), sig=strat)
    src.check('back-to-operation', state == 'OPERATION', sig=strat, state=state)
    app_level = any(p['rfs'] in ('STOP_APPLICATION', 'RESTART_APPLICATION') for p in conflicts)
    if not app_level:
        src.check('bystander-untouched', all(ns.split(':')[1] != 'bystander' for _, _, ns in reqs + later),
                  sig=strat)
    starts = [ns for kind, _, ns in later if kind == 'start']
    if strat == 'RESTART':
        for p in conflicts:
            src.check('restart-starts-one-copy-again', starts.count(p['ns']) == 1, sig='RESTART', starts=starts)
            src.check('one-copy-runs', len(p['proc'].running_identifiers) == 1, sig='RESTART')
    elif strat in ('SENICIDE', 'INFANTICIDE'):
        for p in conflicts:
            src.check('one-copy-kept', len(p['proc'].running_identifiers) == 1, sig=strat)
        src.check('nothing-started', not starts, sig=strat)
    elif strat == 'STOP':
        for p in conflicts:
            src.check('all-copies-stopped', not p['proc'].running_identifiers, sig='STOP')
        src.check('nothing-started', not starts, sig='STOP')
    elif strat == 'RUNNING_FAILURE' and len({p['rfs'] for p in conflicts}) == 1:
        # every copy has been stopped; then the running failure strategy of the program applies (the bystander of the
        # application still runs: no promotion of RESTART_PROCESS)
        rfs = conflicts[0]['rfs']
        src.reach('running-failure-' + rfs)
        for p in conflicts:
            n_run = len(p['proc'].running_identifiers)
            if rfs == 'RESTART_PROCESS':
                src.check('running-failure-strategy-applied', starts.count(p['ns']) == 1 and n_run == 1, sig=rfs,
                          starts=starts, running=n_run)
            elif rfs == 'CONTINUE':
                src.check('running-failure-strategy-applied', p['ns'] not in starts and n_run == 0, sig=rfs,
                          starts=starts)
            elif rfs == 'STOP_APPLICATION':
                src.check('running-failure-strategy-applied', not starts and n_run == 0, sig=rfs, starts=starts)
            else:
                src.check('running-failure-strategy-applied', starts.count(p['ns']) == 1 and n_run == 1, sig=rfs,
                          starts=starts, running=n_run)
    src.obs('requests', sorted(list(r) for r in reqs + later))


HARNESSES = [
    Harness('H05-1', conciliate, quick={'n': 3, 'nconf': 1}, thorough={'n': 3, 'nconf': 1},
            reach=('conflict', 'no-conflict', 'closed', 'user'), timeout=(120, 600),
            doc='one duplicated process on 2..3 instances, six strategies, symbolic uptimes, acknowledgement order'),
    Harness('H05-2', conciliate, quick={'n': 2, 'nconf': 2}, thorough={'n': 3, 'nconf': 2},
            reach=('conflict', 'closed'), timeout=(120, 1200),
            doc='two simultaneous conflicts in the same application'),
    Harness('H05-states', conciliate, quick={'n': 2, 'nconf': 1, 'states': True},
            thorough={'n': 3, 'nconf': 2, 'states': True}, reach=('conflict', 'closed'), timeout=(120, 1200),
            doc='every copy in STARTING, BACKOFF or RUNNING (the three "running" states of the statement)'),
    Harness('H05-2apps', conciliate, quick=None, thorough={'n': 2, 'nconf': 2, 'same_app': False},
            reach=('conflict', 'closed'), timeout=(0, 900), doc='two conflicts in two applications'),
]
BOUNDS = {'quick': {'instances': '3 (one conflict) / 2 (two conflicts)', 'strategies': 6, 'uptimes': 'symbolic',
                    'copy_states': 'STARTING / BACKOFF / RUNNING per copy (H05-states, 2 instances, 1 conflict)'},
          'thorough': {'instances': 3, 'conflicts': 2}}
OUTSIDE = ['more than 2 simultaneous conflicts, N > 3', 'a new conflict appearing while the stops are acknowledged '
           '(thorough tier only when listed)', 'RUNNING_FAILURE + SHUTDOWN / RESTART program strategies']
ASSUMPTIONS = ['the local instance is the Master of a stable cluster in OPERATION (rig: harness/fsm_common.operational)',
               'uptimes are planted in the per-instance information (rig/adapter.set_info)',
               'equal uptimes: any single kept copy is accepted']
