"""C15 - application state and operational status follow their definition; formulas execute nothing else."""
import sys

from runner import Harness
from rig.stubs import rigged
from rig.core import Core
from rig import adapter
from spec import app_status as A

PROPERTY = 'C15'
NAMES = ['p1', 'p2', 'q1']
MATCHES = {'p.': ['p1', 'p2'], 'q.': ['q1'], 'z.': [], '.*': ['p1', 'p2', 'q1'], 'p1|q1': ['p1', 'q1']}
# process names that are not plain identifiers: read as regular expressions, 'p+1' does not match itself and 'p.2' also
# matches its sibling 'px2' - a leaf that is exactly a process name must still mean that process
NAMES_META = ['p+1', 'p.2', 'px2']
MATCHES_META = {'p.': [], 'p.+': ['p+1', 'p.2', 'px2'], 'p.2': None, 'px.': ['px2'], 'z.': []}
MATCHES_META = {k: v for k, v in MATCHES_META.items() if v is not None}


def _application(src, core, nproc, managed=None, symbolic_flags=True, fixed_states=False, eager=False,
                 domain=A.ALL_STATES, forcing=True, names=NAMES):
    """application 'app' with nproc processes whose displayed state / flags are solver variables"""
    ident = core.local_identifier
    procs = []
    for k in range(nproc):
        name = names[k]
        p = core.add_process(ident, 'app', name)
        st = A.RUNNING if fixed_states else src.int_in(f'state{k}', domain, eager=eager)
        forced = (not fixed_states) and forcing and src.pick_flag(f'forced{k}')
        adapter._need(p, '_state')
        adapter._need(p, 'forced_state')
        if forced:
            # the real state is something else; the forced one is what is displayed
            p._state = src.int_in(f'real{k}', A.ALL_STATES)
            p.forced_state = st
        else:
            p._state = st
        # a plain boolean inside formulas (the evaluator checks `type(x) is bool`), lazy otherwise
        exp = True if fixed_states else (src.flag(f'expected_exit{k}') if symbolic_flags
                                         else src.pick_flag(f'expected_exit{k}'))
        p.expected_exit = exp
        req = src.flag(f'required{k}') if symbolic_flags else False
        inseq = src.pick_flag(f'sequenced{k}') if symbolic_flags else True
        adapter.set_rules(p.rules, required=req, start_sequence=1 if inseq else 0)
        procs.append({'state': st, 'expected_exit': exp, 'required': req, 'proc': p})
    app = core.context.applications['app']
    if managed is None:
        managed = src.pick_flag('managed')
    adapter.set_rules(app.rules, managed=managed)
    return app, procs, managed


@rigged
def state_and_required(src, nproc=2):
    """H15a: real ApplicationStatus.update / update_state / update_status_required vs the definition"""
    core = Core(1, 0)
    app, procs, managed = _application(src, core, nproc)
    app.update_sequences()
    app.update()
    exp_state = A.app_state([p['state'] for p in procs])
    src.check('application-state', app.state.name == exp_state, sig=exp_state, real=app.state.name)
    # a required process without start sequence is not possible in an accepted rules file (C18)
    major, minor = A.required_status(procs, managed)
    src.check('major-failure', bool(app.major_failure) == major, sig=f'major={major}', real=app.major_failure)
    src.check('minor-failure', bool(app.minor_failure) == minor, sig=f'minor={minor}', real=app.minor_failure)
    src.reach('evaluated')
    src.obs('status', [app.state.name, bool(app.major_failure), bool(app.minor_failure)])


# ------------------------------------------------------------------------------------------------ formulas
def gen_valid(src, depth, tag='f', names=NAMES, matches=MATCHES):
    """symbolic choice of a formula of the documented grammar; returns the spec tree"""
    kinds = ['name', 'pattern'] + (['and', 'or', 'not', 'any', 'all'] if depth > 0 else [])
    kind = src.pick(f'{tag}k', kinds)
    if kind == 'name':
        return ('name', src.pick(f'{tag}n', names))
    if kind == 'pattern':
        return ('pattern', src.pick(f'{tag}p', list(matches)))
    if kind in ('and', 'or'):
        return (kind, gen_valid(src, depth - 1, tag + 'a', names, matches),
                gen_valid(src, depth - 1, tag + 'b', names, matches))
    return (kind, gen_valid(src, depth - 1, tag + 'a', names, matches))


@rigged
def formula_semantics(src, depth=2, meta=False):
    """H15b: the real evaluate / update_status_formula / _get_matches on symbolic process states vs the oracle"""
    core = Core(1, 0)
    names, matches = (NAMES_META, MATCHES_META) if meta else (NAMES, MATCHES)
    app, procs, managed = _application(src, core, 3, managed=True, symbolic_flags=False, eager=True, forcing=False,
                                       domain=(A.RUNNING, A.STARTING, A.STOPPED, A.EXITED, A.FATAL), names=names)
    tree = gen_valid(src, depth, names=names, matches=matches)
    formula = A.unparse(tree)
    app.rules.status_formula = formula
    app.update_sequences()
    app.update()
    values = {names[k]: A.operational(procs[k]['state'], procs[k]['expected_exit']) for k in range(3)}
    try:
        r = A.eval_formula(tree, values, matches)
        expected = True if isinstance(r, list) else (not r)
        src.reach('resolved')
    except A.Unresolved:
        expected = True
        src.reach('unresolved')
    src.check('major-is-negated-formula', bool(app.major_failure) == expected, sig=tree[0], formula=formula)
    src.obs('major', bool(app.major_failure))


@rigged
def formula_over_a_changing_process_set(src, k=3):
    """H15d: the formula is evaluated, then processes of the application are added and removed (a second instance
    defines more of them, numprocs changes) and it is evaluated again: a pattern always ranges over the processes the
    application has *now*"""
    import re
    from rig.core import process_info
    from rig.stubs import CLOCK
    from supervisor.states import ProcessStates as PS
    core = Core(2, 0)
    ids = core.ids
    from supvisors.ttypes import SupvisorsInstanceStates as S
    for i in ids:
        core.identify(i)
        core.set_instance_state(i, S.RUNNING)
    pool = ['w_0', 'w_1', 'w_2']
    formula_tree = src.pick('formula', [('all', ('pattern', 'w_.*')), ('any', ('pattern', 'w_.*')),
                                        ('or', ('name', 'w_0'), ('any', ('pattern', 'w_[12]')))])
    core.add_process(ids[0], 'app', 'w_0', PS.STOPPED)
    app = core.context.applications['app']
    adapter.set_rules(app.rules, managed=True)
    app.rules.status_formula = A.unparse(formula_tree)
    states = {'w_0': A.STOPPED}
    present = {'w_0'}

    def check(tag):
        app.update_sequences()
        app.update()
        values = {n: A.operational(states[n], True) for n in present}
        matches = {p: [n for n in sorted(present) if re.fullmatch(p, n)] for p in ('w_.*', 'w_[12]')}
        try:
            r = A.eval_formula(formula_tree, values, matches)
            expected = True if isinstance(r, list) else (not r)
        except (A.Unresolved, KeyError):
            expected = True
        src.check('major-is-negated-formula-over-the-current-processes', bool(app.major_failure) == expected,
                  sig=f'{formula_tree[0]}:{tag}', present=sorted(present), states=states, formula=app.rules.status_formula)
    check('start')
    for step in range(k):
        name = src.pick(f'who{step}', pool)
        kind = src.pick(f'kind{step}', ['added-stopped', 'running', 'fatal', 'removed'])
        if kind == 'added-stopped' and name not in present:
            core.fsm.on_process_added_event(core.context.instances[ids[0]],
                                            process_info('app', name, PS.STOPPED, now=CLOCK[0].t))
            present.add(name)
            states[name] = A.STOPPED
        elif kind == 'removed' and name in present and name != 'w_0':
            core.fsm.on_process_removed_event(core.context.instances[ids[0]], {'group': 'app', 'name': name})
            present.discard(name)
            states.pop(name)
        elif kind in ('running', 'fatal') and name in present:
            st = PS.RUNNING if kind == 'running' else PS.FATAL
            core.process_event(ids[0], 'app', name, st, expected=kind == 'running')
            states[name] = A.RUNNING if kind == 'running' else A.FATAL
        check(kind)
    src.check('no-internal-error', not core.logger.tracebacks(), log=core.logger.tracebacks()[:1])
    src.reach('evaluated')


LEAVES = ["'p1'", "'zz'", "'p.'", "'('", "1", "None", "x", "__import__"]
SMALL = ["'p1'", "'p.'", "1", "x"]
TEMPLATES = ["{a}", "not {a}", "-{a}", "{a} and {b}", "{a} or {b}", "all({a})", "any({a})", "all()", "any({a}, {b})",
             "all(x={a})", "map({a})", "{a}.upper()", "{a}.upper", "{a}[0]", "{a} + {b}", "{a} == {b}",
             "{a} if {b} else {a}", "[{a}]", "[y for y in {a}]", "(lambda: {a})()", "eval({a})",
             "__import__('os').system('touch /tmp/pwned_c15')", "open('/tmp/pwned_c15', 'w')", "all(*{a})",
             "{a}({b})", "any(not {a})", "all({a} and {b})", "any(all({a}))", "f'{{x}}'", "{a} is {b}",
             "print({a})", "exec({a})", "().__class__.__bases__[0].__subclasses__()"]
STATEMENTS = ["{e}", "pass", "import os", "x = {e}", "{e}; {e}", "", "{e}\n{e}", "del x", "def f(): pass",
              "assert {e}"]
WHITELIST_SAFE = None

_AUDIT = {'on': False, 'events': []}


def _hook(event, args):
    if not _AUDIT['on']:
        return
    if event in ('os.system', 'subprocess.Popen', 'os.exec', 'os.posix_spawn', 'os.fork'):
        _AUDIT['events'].append((event, str(args)[:80]))
    elif event == 'open':
        mode = args[1] if len(args) > 1 else ''
        if isinstance(mode, str) and any(c in mode for c in 'wax+'):
            _AUDIT['events'].append((event, str(args[0])[:80]))
    elif event == 'import' and args and args[0] in ('os', 'subprocess') and False:
        _AUDIT['events'].append((event, args[0]))


_HOOKED = [False]


def gen_hostile(src, depth):
    t = src.pick('template', TEMPLATES)
    pool = LEAVES if depth <= 1 else None
    out = t
    if '{a}' in t:
        if depth > 1:
            sub = src.pick('a_template', TEMPLATES[:20])
            a = sub.replace('{a}', src.pick('aa', SMALL)).replace('{b}', src.pick('ab', SMALL))
            a = f'({a})' if sub != '{a}' else a
        else:
            a = src.pick('a', LEAVES)
        out = out.replace('{a}', a)
    if '{b}' in t:
        out = out.replace('{b}', src.pick('b', LEAVES if depth <= 1 else SMALL))
    return out


@rigged
def formula_safety(src, depth=1):
    """H15c: any construct outside the grammar yields a major failure: no exception leaves update(), nothing is
    executed (audit hook on process / file events, spy on eval inside supvisors.application)"""
    import re
    import builtins
    import supvisors.application as app_mod
    from supvisors.ttypes import ApplicationStatusParseError
    if not _HOOKED[0]:
        sys.addaudithook(_hook)
        _HOOKED[0] = True
    core = Core(1, 0)
    app, procs, managed = _application(src, core, 2, managed=True, symbolic_flags=False, fixed_states=True)
    stmt = src.pick('statement', STATEMENTS)
    e1 = gen_hostile(src, depth) if '{e}' in stmt else ''
    source = stmt.replace('{e}', e1)
    evaluated = []

    def spy(arg, *a):
        evaluated.append(arg)
        return builtins.eval(arg, *a)
    app_mod.eval = spy
    _AUDIT['events'].clear()
    _AUDIT['on'] = True
    try:
        try:
            app.rules.status_formula = source
            accepted = True
        except ApplicationStatusParseError:
            accepted = False        # documented: the rules parser logs it and ignores the formula
        if accepted:
            src.reach('accepted')
            app.update_sequences()
            app.update()            # must not raise
            app.update()
        else:
            src.reach('refused')
    finally:
        _AUDIT['on'] = False
        if 'eval' in app_mod.__dict__:
            del app_mod.__dict__['eval']
    src.check('nothing-executed', not _AUDIT['events'], sig='audit', events=_AUDIT['events'][:3], source=source)
    ok_eval = all(isinstance(a, str) and re.match(r'^(all|any)\(\[(True|False)(, (True|False))*\]\)$', a)
                  for a in evaluated)
    src.check('only-all-any-of-booleans-evaluated', ok_eval, sig='eval', evaluated=evaluated[:2], source=source)
    if accepted:
        grammar_ok = _in_grammar(source)
        if not grammar_ok:
            src.check('other-construct-is-major-failure', app.major_failure is True, sig='major', source=source)
    src.obs('result', [accepted, bool(app.major_failure)])


def _in_grammar(source):
    """is the source inside the documented grammar (names, patterns, and / or / not, any(x), all(x))?"""
    import ast
    try:
        tree = ast.parse(source)
    except SyntaxError:
        return False
    if len(tree.body) != 1 or not isinstance(tree.body[0], ast.Expr):
        return False

    def ok(n):
        if isinstance(n, ast.Constant):
            return isinstance(n.value, str)
        if isinstance(n, ast.BoolOp):
            return all(ok(v) for v in n.values)
        if isinstance(n, ast.UnaryOp):
            return isinstance(n.op, ast.Not) and ok(n.operand)
        if isinstance(n, ast.Call):
            return (isinstance(n.func, ast.Name) and n.func.id in ('any', 'all') and len(n.args) == 1
                    and not n.keywords and not isinstance(n.args[0], ast.Starred) and ok(n.args[0]))
        return False
    return ok(tree.body[0].value)


HARNESSES = [
    Harness('H15a', state_and_required, quick={'nproc': 2}, thorough={'nproc': 3}, reach=('evaluated',),
            timeout=(120, 1200), doc='application state, major and minor failure without formula'),
    Harness('H15b', formula_semantics, quick={'depth': 1}, thorough={'depth': 2}, reach=('resolved', 'unresolved'),
            timeout=(120, 1200), doc='formula semantics over names, patterns, and/or/not/any/all'),
    Harness('H15b-meta', formula_semantics, quick={'depth': 1, 'meta': True}, thorough={'depth': 2, 'meta': True},
            reach=('resolved', 'unresolved'), timeout=(100, 900),
            doc='same with process names holding regular expression metacharacters (an exact name is that process)'),
    Harness('H15d', formula_over_a_changing_process_set, quick={'k': 3}, thorough={'k': 4}, reach=('evaluated',),
            timeout=(60, 300), doc='patterns range over the processes the application has now (additions / removals)'),
    Harness('H15c', formula_safety, quick={'depth': 1}, thorough={'depth': 2}, reach=('accepted', 'refused'),
            timeout=(120, 1200), doc='hostile / ill-formed formulas: major failure, no error, no side effect'),
]
BOUNDS = {'quick': {'processes': 2, 'formula_depth': 1, 'formula_process_states': 'RUNNING, STARTING, STOPPED, '
                    'EXITED (expected or not), FATAL', 'hostile_templates': len(TEMPLATES)},
          'thorough': {'processes': 3, 'formula_depth': 2}}
OUTSIDE = ['the tokenizer / ast.parse itself (C code) on strings that do not come from the templates',
           'formulas deeper than 2 operators', 'minor failure under a formula (not defined by the statement)']
ASSUMPTIONS = ['process states and flags are planted through rig/adapter.py',
               'side effects are observed by an audit hook (process creation, file writes) and a spy on eval']
