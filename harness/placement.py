"""Shared scenario pieces for C04 (eligibility and load) and C14 (placement strategy / distribution rules)."""
import itertools

from rig.stubs import rigged, CLOCK
from rig.core import Core
from rig import adapter
from spec import placement as P
from supervisor.states import ProcessStates

STRATS = ['CONFIG', 'LESS_LOADED', 'MOST_LOADED', 'LOCAL', 'LESS_LOADED_NODE', 'MOST_LOADED_NODE']


def node_maps(n):
    """canonical node assignments (node index of each instance), several instances per node included"""
    out = []
    for m in itertools.product(range(n), repeat=n):
        ok = m[0] == 0 and all(m[i] <= max(m[:i]) + 1 for i in range(1, n))
        if ok:
            out.append(list(m))
    return out


def rule_choices(n):
    """applicable identifiers rule: '*', nothing, or any ordered non-empty sub-list of the instances"""
    out = [('*',), ()]
    for k in range(1, n + 1):
        out.extend(itertools.permutations(range(n), k))
    return out


def build_situation(src, n, max_load=150, prefix='', lean=False, states=None, nodes=None):
    """real core in a symbolic placement situation + the plain description of it for the oracle"""
    from supvisors.ttypes import SupvisorsInstanceStates as S
    core = Core(n, 0)
    ids = core.ids
    node = src.pick(prefix + 'nodes', nodes or node_maps(n))
    for i, ident in enumerate(ids):
        core.identify(ident, node[i])
    running = []
    for i, ident in enumerate(ids):
        st = src.choice(f'{prefix}ist{i}', [S[x] for x in states] if states else list(S))
        adapter.plant_instance_state(core, ident, st)
        running.append(st == S.RUNNING)
    # running load: one ballast process RUNNING on each instance with a symbolic expected_loading
    load, pend, keyed = [], [], []
    # which instances already have pending start requests (absent key / present key in the load request map)
    pendmask = src.pick(prefix + 'pendmask', ['all'] if lean else ['all', 'none', 'first', 'last'])
    for i, ident in enumerate(ids):
        l = src.int(f'{prefix}load{i}', 0, max_load)
        load.append(l)
        p = core.add_process(ident, 'ballast', f'b{i}', ProcessStates.RUNNING, now=CLOCK[0].t, start=CLOCK[0].t)
        adapter.set_rules(p.rules, expected_load=l)
        has_pend = pendmask == 'all' or (pendmask == 'first' and i == 0) or (pendmask == 'last' and i == n - 1)
        keyed.append(has_pend)
        pend.append(src.int(f'{prefix}pend{i}', 0, max_load) if has_pend else 0)
    sit = {'n': n, 'node': node, 'running': running, 'load': load, 'pend': pend}
    # the key is present iff a request is pending there, whatever its (possibly null) load
    load_request_map = {ids[i]: pend[i] for i in range(n) if keyed[i]}
    return core, sit, load_request_map


def add_target(src, core, sit, group='app', name='target', prefix='', rule=True, lean=False):
    """the program to place: known / disabled per instance, identifiers rule, expected_loading - all symbolic"""
    n, ids = sit['n'], core.ids
    known, enabled = [], []
    proc = None
    for i, ident in enumerate(ids):
        k = True if lean else src.pick_flag(f'{prefix}known{i}')
        known.append(k)
        if k:
            dis = src.flag(f'{prefix}disabled{i}')
            proc = core.add_process(ident, group, name, ProcessStates.STOPPED, disabled=dis)
            enabled.append(~dis if hasattr(dis, 'e') else (not dis))
        else:
            enabled.append(False)
    src.assume(proc is not None)
    L = src.int(f'{prefix}L', 0, 100)
    adapter.set_rules(proc.rules, expected_load=L)
    if rule:
        rc = src.pick(f'{prefix}rule', [('*',), tuple(reversed(range(n)))] if lean else rule_choices(n))
        if rc == ('*',):
            permitted = list(range(n))
            identifiers = ['*']
        else:
            permitted = list(rc)
            identifiers = [ids[i] for i in rc]
        adapter.set_rules(proc.rules, identifiers=identifiers)
    else:
        permitted = list(range(n))
    sit.update(known=known, enabled=enabled, L=L, permitted=permitted)
    return proc
