"""C10 - every start/stop job terminates in bounded ticks whatever gets lost."""
from runner import Harness
from rig.stubs import rigged
from rig import adapter
from rig.procsim import Sim
from harness import fsm_common as FC
from supervisor.states import ProcessStates as PS

PROPERTY = 'C10'
MARGIN = 2      # documented tick margin (ProcessCommand.DEFAULT_TICK_TIMEOUT) for clusters of less than 30 instances


class _Publisher:
    """stands for the external event publisher (sockets): accepts everything"""
    def __getattr__(self, name):
        return lambda *a, **k: None


def _forced(core, ns):
    out = []
    for name, a in core.rpc_handler.out:
        if name == 'send_process_state_event' and a[0].get('forced') and f"{a[0]['group']}:{a[0]['name']}" == ns:
            out.append((a[0]['state'], a[0]['spawnerr']))
    return out


@rigged
def job(src, kind='start', k=5, target_index=1, fails=False):
    """H10a: one real start (or stop) job against a target whose ticks, events and silences are solver-chosen; an
    independent monitor computes the tick deadline"""
    from supvisors.ttypes import StartingStrategies
    # auto_fence: a lost target is ISOLATED instead of STOPPED (the Master is at work) - the job is given up all the same
    core = FC.operational(2, {'auto_fence': 'true'} if src.pick_flag('auto_fence') else {})
    if src.pick_flag('event_link'):
        core.external_publisher = _Publisher()          # event_link = ZMQ / WS: every event is also published outside
    ids = core.ids
    target = ids[target_index]
    tstatus = core.context.instances[target]
    secs = src.int('secs', 0, 3600)            # startsecs / stopwaitsecs of the program on the target
    wait_exit = kind == 'start' and src.pick_flag('wait_exit')
    core.add_process(target, 'app', 'p', PS.STOPPED, startsecs=secs, stopwaitsecs=secs)
    core.add_process(ids[0], 'app', 'next', PS.STOPPED)
    app = core.context.applications['app']
    proc = app.processes['p']
    adapter.set_rules(app.rules, managed=True, start_sequence=1)
    adapter.set_rules(proc.rules, start_sequence=1, stop_sequence=2, wait_exit=wait_exit)
    adapter.set_rules(app.processes['next'].rules, start_sequence=2, stop_sequence=1)
    core.finalize_rules()
    # the target has an arbitrary tick counter
    c = src.int('target_counter', 0, 100000)
    core.peer_tick(target, c) if target != ids[0] else None
    if target == ids[0]:
        c = core.context.local_status.sequence_counter
    sim = Sim(core)
    if kind == 'start':
        core.starter.start_application(StartingStrategies.CONFIG, app)
        commander = core.starter
        states = {'ack': PS.STARTING, 'done': PS.RUNNING}
        failure_state = PS.FATAL
    else:
        core.process_event(target, 'app', 'p', PS.STARTING)
        core.process_event(target, 'app', 'p', PS.RUNNING)
        core.process_event(ids[0], 'app', 'next', PS.RUNNING)
        core.rpc_handler.out.clear()
        core.stopper.stop_application(app)
        commander = core.stopper
        failure_state = PS.STOPPED
    reqs = sim.new_requests()
    src.check('request-sent', reqs == [(kind, target, 'app:p')], sig=kind, reqs=reqs)
    ref = c                # counter of the target when the timer was last (re)set
    phase = 'requested'    # requested -> acknowledged (STARTING / STOPPING seen) -> done
    backoffs = 0
    lost = False
    since = 0          # local ticks since the last tick of the target was received (aligned by operational())
    for step in range(k):
        choices = ['target_ticks', 'target_silent']
        if phase == 'requested':
            choices += ['ack', 'ack_dropped']
        elif phase == 'acknowledged':
            choices += ['final', 'final_dropped'] + (['backoff'] if kind == 'start' and backoffs < 2 else [])
            if kind == 'start' and fails:
                choices += ['gives_up', 'exits_early']
        what = src.pick(f'step{step}', choices)
        in_progress_before = commander.in_progress()
        if what == 'target_ticks':
            # the target is alive: delta of its ticks pass (the local instance evaluates at each of its own ticks;
            # evaluations in between could only have abandoned the job earlier)
            delta = src.int(f'delta{step}', 1, 800)
            c = c + delta
            core._round += 1
            if target != ids[0]:
                core.peer_tick(target, c)
                core.tick()
            else:
                core.listener.counter = c
                core.tick()
            since = 1
        elif what == 'target_silent':
            src.assume(target != ids[0])
            core._round += 1
            core.tick()
            since += 1
            if since > 2:          # inactivity_ticks = 2
                lost = True
        elif what in ('ack', 'ack_dropped'):
            phase = 'acknowledged' if what == 'ack' else phase
            if what == 'ack':
                core.process_event(target, 'app', 'p', PS.STARTING if kind == 'start' else PS.STOPPING)
            else:
                phase = 'ack_lost'
        elif what == 'backoff':
            core.process_event(target, 'app', 'p', PS.BACKOFF, expected=False)
            core.process_event(target, 'app', 'p', PS.STARTING)
            backoffs += 1
            ref = c
        elif what == 'gives_up':
            # the Supervisor of the target exhausts its retries: BACKOFF then FATAL, reported by the target itself
            core.process_event(target, 'app', 'p', PS.BACKOFF, expected=False, spawnerr='exited too quickly')
            core.process_event(target, 'app', 'p', PS.FATAL, expected=False, spawnerr='exited too quickly')
            phase = 'failed'
        elif what == 'exits_early':
            # the program passes startsecs on the target and dies before the RUNNING event is processed here: RUNNING
            # is dropped, EXITED (unexpected) arrives
            core.process_event(target, 'app', 'p', PS.EXITED, expected=False)
            phase = 'failed'
        elif what in ('final', 'final_dropped'):
            if what == 'final':
                core.process_event(target, 'app', 'p', PS.RUNNING if kind == 'start' else PS.STOPPED)
                phase = 'done'
            else:
                phase = 'final_lost'
        # ---- monitor
        cmd_pending = any(cmd.process is proc for j in commander.current_jobs.values() for cmd in j.current_jobs)
        if lost:
            src.reach('target-lost')
            src.check('job-abandoned-when-target-lost', not cmd_pending, sig=f'{kind}:{phase}')
            src.check('given-up-job-reported-when-target-lost', proc.displayed_state == failure_state
                      or (kind == 'stop' and proc.displayed_state in (PS.FATAL, PS.STOPPED)),
                      sig=f'{kind}:{phase}', displayed=proc.displayed_state)
            break
        if what in ('target_ticks',):
            if phase in ('requested', 'ack_lost'):
                overdue = c > ref + MARGIN
            elif phase in ('acknowledged', 'final_lost'):
                # margin plus the program's startsecs / stopwaitsecs (in ticks of 5 s, rounded up)
                overdue = c > ref + MARGIN + (-((-secs) // 5))
            else:
                overdue = None
            if overdue is not None:
                if overdue:
                    src.reach('overdue')
                    src.check('abandoned-after-the-deadline', not cmd_pending, sig=f'{kind}:{phase}', c=c, ref=ref,
                              secs=secs)
                    forced = _forced(core, 'app:p')
                    src.check('forced-state-published-with-reason', forced and forced[-1][0] == failure_state
                              and bool(forced[-1][1]), sig=f'{kind}:{phase}', forced=forced)
                    src.check('displayed-as-given-up', proc.displayed_state == failure_state, sig=f'{kind}:{phase}')
                    break
                else:
                    src.reach('in-time')
                    src.check('not-abandoned-before-the-deadline', cmd_pending, sig=f'{kind}:{phase}', c=c, ref=ref,
                              secs=secs)
        if phase == 'failed':
            src.reach('failed')
            src.check('job-done-on-failure-event', not cmd_pending, sig=f'{kind}:{what}')
            src.check('failure-displayed', proc.displayed_state in (PS.FATAL, PS.EXITED), sig=f'{kind}:{what}',
                      displayed=proc.displayed_state)
            break
        if phase == 'done':
            if wait_exit:
                src.reach('wait-exit')
                src.check('wait-exit-keeps-waiting', cmd_pending, sig='wait_exit')
            else:
                src.reach('done')
                src.check('job-done-on-final-event', not cmd_pending, sig=kind)
            break
    # once the job on p is over the sequence moves on: the next group is requested within two evaluations
    cmd_pending = any(cmd.process is proc for j in commander.current_jobs.values() for cmd in j.current_jobs)
    if not cmd_pending:
        for _ in range(2):
            core._round += 1
            if not lost and target != ids[0]:
                c = c + 1
                core.peer_tick(target, c)
            core.tick()
        later = sim.new_requests()
        nxt = [r for r in later if r[2] == 'app:next']
        src.check('sequence-moves-on', len(nxt) == 1, sig=kind, later=later, phase=phase)
    src.check('no-internal-error', not core.logger.tracebacks(), log=core.logger.tracebacks()[:1])
    src.obs('final', [phase, bool(cmd_pending)])


HARNESSES = [
    Harness('H10-start', job, quick={'kind': 'start', 'k': 6}, thorough={'kind': 'start', 'k': 8},
            reach=('overdue', 'in-time', 'done', 'target-lost', 'wait-exit'), timeout=(150, 1200),
            doc='start job: deadline arithmetic with symbolic startsecs and tick counters, dropped events, BACKOFF, '
                'silent / lost target'),
    Harness('H10-stop', job, quick={'kind': 'stop', 'k': 6}, thorough={'kind': 'stop', 'k': 8},
            reach=('overdue', 'in-time', 'done', 'target-lost'), timeout=(150, 1200),
            doc='stop job: same with stopwaitsecs'),
    Harness('H10-fails', job, quick={'kind': 'start', 'k': 4, 'fails': True}, thorough={'kind': 'start', 'k': 7, 'fails': True},
            reach=('failed', 'overdue', 'done'), timeout=(120, 1200),
            doc='start job whose program gives up on the target (BACKOFF -> FATAL) or dies before RUNNING is seen '
                '(EXITED): the job ends on that report and the sequence moves on (the program is not required)'),
    Harness('H10-local', job, quick={'kind': 'start', 'k': 3, 'target_index': 0}, thorough=None,
            reach=('overdue', 'in-time', 'done'), timeout=(60, 0), doc='the target is the local instance'),
]
BOUNDS = {'quick': {'steps': 6, 'startsecs_stopwaitsecs': '[0,3600] symbolic', 'tick_jumps': '[1,800] symbolic',
                    'backoffs': '<=2'}, 'thorough': {'steps': 8}}
OUTSIDE = ['clusters of 30 instances or more (the margin grows with the number of instances)',
           'several commands in flight in the same group (C03 / C09)']
ASSUMPTIONS = ['a jump of d target ticks stands for d ticks during which nothing else happens (the evaluations in '
               'between compare the same counters and could only abandon the job earlier)',
               'inactivity_ticks = 2']
