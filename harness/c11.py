"""C11 - process status is a deterministic synthesis of per-instance reports.

H11: the real Context/ProcessStatus objects are driven by a bounded symbolic history - a symbolic prefix that
establishes any (state, listed) combination per instance through real snapshots/events, followed by k arbitrary
operations {event, forced event, snapshot, instance loss, removal} with symbolic arguments - and compared after every
operation with the independent model spec/process_synthesis.py."""
from runner import Harness
from rig.stubs import rigged, CLOCK
from rig.core import Core
from spec import process_synthesis as M
from symx import sym_ite

PROPERTY = 'C11'
GROUP, NAME = 'app', 'proc'


def _observe(src, proc, model, tag, ids, sig=None):
    kw = {'sig': sig} if sig else {}
    real_running = set(proc.running_identifiers)
    exp_running = model.running_on()
    src.check(f'{tag}:listing', real_running == exp_running, real=sorted(real_running), expected=sorted(exp_running),
              **kw)
    src.check(f'{tag}:conflict', proc.conflicting() == (len(exp_running) >= 2), **kw)
    if model.entries:
        allowed = model.allowed_states()
        src.check(f'{tag}:state', proc.state in allowed, real=proc.state, allowed=allowed, **kw)
        disp = allowed if model.forced is None else [model.forced]
        src.check(f'{tag}:displayed', proc.displayed_state in disp, real=proc.displayed_state, allowed=disp, **kw)
        src.check(f'{tag}:expected_exit', proc.expected_exit == model.expected_exit(), **kw)
    # per-instance entries are the latest reports
    for i in ids:
        if i in model.entries:
            src.check(f'{tag}:entry', (i in proc.info_map) and proc.info_map[i]['state'] == model.entries[i].state,
                      instance=i, **kw)
        else:
            src.check(f'{tag}:entry-absent', i not in proc.info_map, instance=i, **kw)


@rigged
def scenario(src, n=3, k=1, removal=True):
    from supvisors.ttypes import SupvisorsInstanceStates as S
    core = Core(n, 0)
    ids = core.ids
    for i in ids:
        core.identify(i)
        core.set_instance_state(i, S.RUNNING)
    model = M.ProcessModel()
    # a witness process so that the application survives removals
    core.add_process(ids[0], GROUP, 'witness')
    # --- symbolic prefix: every instance absent, or present with any last state, listed or not
    present = [src.pick_flag(f'present{i}') for i in range(n)]
    src.assume(any(present))
    for i in range(n):
        if not present[i]:
            continue
        st = src.int_in(f's{i}', M.ALL_STATES)
        exp = src.flag(f'exp{i}')
        stopping_listed = src.flag(f'sl{i}')
        if (st == M.STOPPING) & stopping_listed:
            core.add_process(ids[i], GROUP, NAME, M.RUNNING, now=CLOCK[0].t)
            model.snapshot(ids[i], M.RUNNING, True)
            core.process_event(ids[i], GROUP, NAME, st, expected=exp)
            model.event(ids[i], st, exp)
        else:
            core.add_process(ids[i], GROUP, NAME, st, now=CLOCK[0].t, expected=exp)
            model.snapshot(ids[i], st, exp)
    proc = core.context.applications[GROUP].processes[NAME]
    # a forced state may be pending as well (set through the real listener entry point)
    if src.pick_flag('forced_pre'):
        fs = src.pick('fstate_pre', [M.FATAL, M.STOPPED])
        core.listener.force_process_state(proc, '', CLOCK[0].t, fs, 'given up')
        model.forced = fs
    _observe(src, proc, model, 'pre', ids)
    src.reach('prefix-done')
    # --- k arbitrary operations
    for step in range(k):
        op = src.pick(f'op{step}', ['event', 'forced', 'snapshot', 'loss'] + (['removal'] if removal else []))
        targeted = op != 'forced' or src.pick_flag(f'targeted{step}')
        w = src.pick_int(f'who{step}', 0, n - 1) if targeted else 0
        ident = ids[w]
        status = core.context.instances[ident]
        sig = None
        if GROUP not in core.context.applications or NAME not in core.context.applications[GROUP].processes:
            break
        if op == 'event':
            ev = src.int_in(f'ev{step}', M.ALL_STATES)
            exp = src.flag(f'evexp{step}')
            known = ident in model.entries
            core.process_event(ident, GROUP, NAME, ev, expected=exp)
            if known:        # events about a process unknown on the sender are ignored (Context.check_process)
                model.event(ident, ev, exp)
            src.reach('op:event')
        elif op == 'forced':
            fs = src.pick(f'fstate{step}', [M.FATAL, M.STOPPED])
            # the time at which the command gave up, relative to the last report of the targeted instance
            newer = src.flag(f'newer{step}')
            target = ident if targeted else ''
            if target in proc.info_map:
                et = proc.info_map[target]['event_time']
                when = (et - 1) if newer else (et + 1)
            else:
                when = CLOCK[0].t
            core.listener.force_process_state(proc, target, when, fs, 'given up')
            dismissed = (target in model.entries) and newer
            if not dismissed:
                model.forced = fs
            src.reach('op:forced')
        elif op == 'snapshot':
            st = src.int_in(f'snap{step}', M.ALL_STATES)
            # the times of a payload are read on the sender's clocks: its monotonic clock starts again from 0 when the
            # node reboots, so a later snapshot may carry an earlier time than what is stored - it is the latest all
            # the same (reception order decides)
            rebooted = src.pick_flag(f'sender_rebooted{step}')
            core.add_process(ident, GROUP, NAME, st, now=0.5 if rebooted else CLOCK[0].t)
            forced_before = model.forced
            model.snapshot(ident, st, True)
            # the statement ties the end of a forced state to events; a snapshot may or may not end it
            if forced_before is not None and proc.forced_state is None:
                model.forced = None
            src.reach('op:snapshot')
        elif op == 'loss':
            if ident == core.local_identifier:
                continue
            if ident in model.entries and model.entries[ident].listed:
                sig = f'lost-while-state={src.conc(model.entries[ident].state)}'
            status.state = S.FAILED
            core.context.invalidate_failed()
            forced_before = model.forced
            touched = model.lose(ident)
            if touched and forced_before is not None and proc.forced_state is None:
                model.forced = None     # not specified by the statement: accept either
            src.reach('op:loss')
            # bring it back so that further operations from it are considered
            if step + 1 < k:
                core.set_instance_state(ident, S.RUNNING)
        elif op == 'removal':
            if ident not in model.entries:
                continue
            core.fsm.on_process_removed_event(status, {'group': GROUP, 'name': NAME})
            model.remove(ident)
            src.reach('op:removal')
            if not model.entries:
                src.check('removed-everywhere', NAME not in core.context.applications[GROUP].processes)
                break
        _observe(src, proc, model, f'op:{op}', ids, sig)
    src.check('no-internal-error', not core.logger.tracebacks(), log=core.logger.tracebacks()[:1])
    src.obs('final', {'running': sorted(proc.running_identifiers), 'state': proc.state,
                      'displayed': proc.displayed_state, 'expected_exit': proc.expected_exit})


REACH = ('prefix-done', 'op:event', 'op:forced', 'op:snapshot', 'op:loss', 'op:removal')

def _admission_gate():
    from harness import c13
    return c13.admission_gate


HARNESSES = [
    Harness('H11-gate', _admission_gate(), quick={}, thorough={}, reach=('admitted', 'not-admitted'), timeout=(30, 60),
            doc='process events of every kind are taken into account from a CHECKED or RUNNING sender (and only from those): the information received in the CHECKED window counts (scenario shared with C13 H13d)'),
    Harness('H11-n2', scenario, quick={'n': 2, 'k': 1}, thorough={'n': 2, 'k': 1}, reach=REACH, timeout=(120, 300),
            doc='symbolic prefix + 1 arbitrary operation on the real Context/ProcessStatus vs the model, N=2'),
    Harness('H11-n3', scenario, quick={'n': 3, 'k': 1}, thorough={'n': 3, 'k': 1}, reach=REACH, timeout=(60, 1200),
            doc='same, N=3 (time-budgeted in the quick tier: exhaustive flag says whether it finished)'),
    Harness('H11-n2k2', scenario, quick=None, thorough={'n': 2, 'k': 2}, reach=REACH, timeout=(0, 900),
            doc='two consecutive arbitrary operations, two instances'),
    Harness('H11-n4', scenario, quick=None, thorough={'n': 4, 'k': 1}, reach=REACH, timeout=(0, 900),
            doc='four instances, one arbitrary operation (budgeted)'),
]

BOUNDS = {'quick': {'instances': 3, 'operations_after_prefix': 1, 'also': 'N=2 with 2 operations',
                    'process_states': 'all 8 Supervisor codes per report',
                    'prefix': 'per instance: absent / any last state / STOPPING listed or not'},
          'thorough': {'instances': '3 (k=2) and 4 (k=1)', 'operations_after_prefix': 2}}
OUTSIDE = ['more than 4 instances', 'more than 2 operations after the symbolic prefix (the prefix itself establishes '
           'every (state, listed) combination per instance, which is the induction hypothesis)',
           'extra_args and program_name bookkeeping', 'description strings (Supervisor formatting)']
ASSUMPTIONS = ['instances are RUNNING for the local context when they report (C13 covers the others)',
               'clock stub: strictly increasing local monotonic time',
               'STARTING vs BACKOFF precedence under conflict is left open by the statement: either is accepted',
               'whether a snapshot or an instance loss ends a forced state is left open by the statement']
