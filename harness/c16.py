"""C16 - no event sequence makes an instance fail internally."""
import json

from runner import Harness
from rig.stubs import rigged, CLOCK
from rig.cluster import RemoteCommEvent
from rig.core import IPS
from rig import adapter
from harness import fsm_common as FC
from harness import c02
from supervisor.states import ProcessStates as PS

PROPERTY = 'C16'


def _payloads(ids, sender):
    """event payloads a peer (or the local proxy about that peer) can deliver, also stale / odd ones"""
    t = CLOCK[0].t

    def proc(name='dup', group='capp', state=20, **kw):
        return dict({'identifier': sender, 'nick_identifier': sender, 'name': name, 'group': group, 'state': state,
                     'now': t, 'now_monotonic': t, 'pid': 1, 'expected': True, 'spawnerr': '', 'extra_args': '',
                     'disabled': False}, **kw)

    def info(name='dup', group='capp', state=0, **kw):
        return dict(proc(name, group, state), statename='STOPPED', start=0, stop=0, description='',
                    start_monotonic=0, stop_monotonic=0, startsecs=1, stopwaitsecs=1, process_index=0,
                    program_name=name, has_stdout=True, has_stderr=False, **kw)

    def state(master, fsm=4, **kw):
        return dict({'identifier': sender, 'nick_identifier': sender, 'now_monotonic': t, 'fsm_statecode': fsm,
                     'fsm_statename': 'X', 'degraded_mode': False, 'discovery_mode': False,
                     'master_identifier': master, 'starting_jobs': False, 'stopping_jobs': False,
                     'instance_states': {i: 'RUNNING' for i in ids}}, **kw)
    net = {'identifier': sender, 'nick_identifier': sender, 'host_id': sender.split(':')[0], 'http_port': 25000,
           'stereotypes': [], 'now_monotonic': t + 100,
           'network': {'machine_id': 'aa:bb:cc:dd:ee:ff', 'fqdn': 'x', 'addresses': {}}}
    P, N = 'SupvisorsPublication', 'SupvisorsNotification'
    return [
        (P, 0, {'sequence_counter': 7, 'when': t, 'when_monotonic': t}),
        (P, 0, {'sequence_counter': 0, 'when': t, 'when_monotonic': t}),
        (P, 1, proc()), (P, 1, proc(state=200, expected=False)), (P, 1, proc(state=100, expected=False)),
        (P, 1, proc(name='ghost')), (P, 1, proc(group='ghost')), (P, 1, proc(name='other')),
        (P, 1, proc(state=200, forced=True, identifier='')), (P, 1, proc(name='other', state=0, forced=True)),
        (P, 2, info()), (P, 2, info(name='brand_new', group='fresh')),
        (P, 3, {'name': 'dup', 'group': 'capp'}), (P, 3, {'name': '*', 'group': 'capp'}),
        (P, 3, {'name': 'ghost', 'group': 'capp'}), (P, 3, {'name': '*', 'group': 'ghost'}),
        (P, 3, {'name': 'other', 'group': 'capp'}),
        (P, 4, info(disabled=True)), (P, 4, info(name='ghost')),
        (P, 7, state(ids[0])), (P, 7, state(sender)), (P, 7, state('')),
        (P, 7, state(sender, fsm=6)), (P, 7, state(sender, fsm=8)),
        (P, 7, state(sender, instance_states={ids[0]: 'RUNNING'})),
        (N, 0, net), (N, 0, None), (N, 0, dict(net, now_monotonic=0.0)),
        (N, 1, {'authorization': 1, 'now_monotonic': t + 100}), (N, 1, {'authorization': 0, 'now_monotonic': t + 100}),
        (N, 1, {'authorization': 2, 'now_monotonic': t + 100}), (N, 1, {'authorization': 3, 'now_monotonic': t + 100}),
        (N, 1, {'authorization': 9, 'now_monotonic': t + 100}), (N, 1, {'authorization': 1, 'now_monotonic': 0.0}),
        (N, 2, state(sender)), (N, 2, state('')),
        (N, 3, [info()]), (N, 3, []), (N, 3, None), (N, 3, [info(name='brand_new', group='fresh', state=20)]),
        (N, 5, None),
    ]


def _site(log):
    """deciding call site and exception type of the first recorded traceback (coarse signature)"""
    import re
    if not log:
        return None
    frames = re.findall(r'supvisors/([\w/]+\.py)", line \d+, in (\w+)', log[0])
    last = log[0].strip().split('\n')[-1].split(':')[0]
    return f'{last}@{frames[-1][0]}:{frames[-1][1]}' if frames else last


@rigged
def one_event(src, n=2, fsm_states=FC.FSM):
    """H16a/c: from an arbitrary symbolic situation, one arbitrary event from an admitted or half-admitted peer
    (every publication / notification kind, stale, duplicated, about unknown processes), then the periodic evaluation"""
    core, sit = FC.build(src, n=n, peer_views='abstract', fsm_states=fsm_states, failure=('CONTINUE',),
                         sync=('LIST', 'USER'), fence=(False, True))
    ids = sit['ids']
    sender = ids[1]
    k = src.pick_int('event', 0, len(_payloads(ids, sender)) - 1)
    etype, header, body = _payloads(ids, sender)[k]
    origin = [sender, sender.split(':')[0], [IPS[1], 25000]]
    core.listener.on_remote_event(RemoteCommEvent(etype, json.dumps([origin, [header, body]])))
    src.check('event-handled-without-internal-error', not core.logger.tracebacks(),
              sig=_site(core.logger.tracebacks()), event=(etype, header, k), log=core.logger.tracebacks()[:1])
    sig = None
    core.rpc_handler.out.clear()
    core.tick()
    src.check('periodic-evaluation-survives', not core.logger.tracebacks(), sig=_site(core.logger.tracebacks()),
              event=(etype, header, k), log=core.logger.tracebacks()[:1])
    src.check('tick-still-published', any(nm == 'send_tick_event' for nm, _ in core.rpc_handler.out),
              event=(etype, header, k))
    src.reach('done')
    src.obs('state', core.fsm.state.name)


@rigged
def two_events(src, n=2):
    """two consecutive events on a stable cluster member (reordering / duplication across kinds)"""
    core = FC.operational(n)
    ids = core.ids
    sender = ids[1]
    core.add_process(ids[0], 'capp', 'dup', PS.STOPPED)
    core.add_process(ids[1], 'capp', 'dup', PS.STOPPED)
    core.add_process(ids[0], 'capp', 'other', PS.STOPPED)
    adapter.set_rules(core.context.applications['capp'].rules, managed=True)
    core.finalize_rules()
    origin = [sender, sender.split(':')[0], [IPS[1], 25000]]
    sig = []
    for j in range(2):
        k = src.pick_int(f'event{j}', 0, len(_payloads(ids, sender)) - 1)
        etype, header, body = _payloads(ids, sender)[k]
        core.listener.on_remote_event(RemoteCommEvent(etype, json.dumps([origin, [header, body]])))
        sig.append((etype, header, k))
    src.check('events-handled-without-internal-error', not core.logger.tracebacks(),
              sig=_site(core.logger.tracebacks()), events=sig, log=core.logger.tracebacks()[:1])
    FC.cluster_round(core)
    src.check('periodic-evaluation-survives', not core.logger.tracebacks(), sig=_site(core.logger.tracebacks()),
              events=sig, log=core.logger.tracebacks()[:1])
    src.reach('done')


@rigged
def cluster_histories(src, n=2, faults=1, delays=0):
    """the cluster schedules of C01 / C08 leave no critical traceback on any instance"""
    from harness import cluster_common as CC
    cl, cfg, plan, senders, traces = CC.run_schedule(src, n=n, faults=faults, delays=delays,
                                                     configs=('LIST+TIMEOUT',), fences=(False, True))
    sig = '+'.join(k[0] for _, _, k in plan) or 'none'
    src.check('no-internal-error-in-cluster-history', not cl.criticals(), sig=sig, log=cl.criticals()[:1])
    src.reach('done')


@rigged
def job_timeouts(src, kind='start', k=4, target_index=0):
    """H16e: the job scenario of C10 (timeouts, dropped events, silent target) with the traceback oracle only"""
    from harness import c10
    c10.job.__wrapped__(_OnlyInternalErrors(src), kind=kind, k=k, target_index=target_index)
    src.reach('done')


@rigged
def placements(src, n=2):
    """H16f: the start requests of C04 (nobody eligible, program unknown / disabled somewhere, loads) with the
    traceback oracle only - an unplaceable request comes back synchronously as a forced FATAL event into the Starter"""
    from harness import c04
    c04.start_apps.__wrapped__(_OnlyInternalErrors(src), n=n, procs=1, apps=1, lean=False)
    src.reach('done')


@rigged
def disturbed_distribution(src, n=3):
    """H16g: the schedules of C08 with a real DISTRIBUTION pending (real rules file, slow supervisords) and two
    crashes / restarts, with the traceback oracle only"""
    from harness import c08
    c08.recovery.__wrapped__(_OnlyInternalErrors(src), n=n, distribution=True, configs=('LIST+TIMEOUT',),
                             fences=(False,), closing=6)
    src.reach('done')


@rigged
def formula_and_removals(src, k=3):
    """H16h: an application whose operational status is a formula over a *pattern*, fed with k solver-chosen events of
    its processes - state changes, removals (update_numprocs decrease / group removal) and additions - from the
    instances that know them: the status is re-evaluated after every event without internal error"""
    from rig.core import process_info
    core = FC.operational(2)
    ids = core.ids
    names = ['p_0', 'p_1']
    known = {}
    for nme in names:
        known[nme] = set(src.pick(f'known_{nme}', [(0,), (1,), (0, 1)]))
        for i in known[nme]:
            core.add_process(ids[i], 'fapp', nme, PS.STOPPED)
    app = core.context.applications['fapp']
    adapter.set_rules(app.rules, managed=True, start_sequence=1)
    app.rules.status_formula = src.pick('formula', ['all("p_.*")', 'any("p_.*")', '"p_0" and "p_1"', 'all("p_.") or "p_0"'])
    core.finalize_rules()
    for step in range(k):
        nme = src.pick(f'who{step}', names)
        sender = src.pick_int(f'from{step}', 0, 1)
        kind = src.pick(f'kind{step}', ['running', 'fatal', 'removed', 'added', 'group_removed'])
        status = core.context.instances[ids[sender]]
        if kind == 'removed':
            core.fsm.on_process_removed_event(status, {'group': 'fapp', 'name': nme})
            known[nme].discard(sender)
        elif kind == 'group_removed':
            core.fsm.on_process_removed_event(status, {'group': 'fapp', 'name': '*'})
            for x in names:
                known[x].discard(sender)
        elif kind == 'added':
            core.fsm.on_process_added_event(status, process_info('fapp', nme, PS.STOPPED, now=CLOCK[0].t))
            known[nme].add(sender)
        elif sender in known[nme]:
            st = PS.RUNNING if kind == 'running' else PS.FATAL
            core.process_event(ids[sender], 'fapp', nme, st, expected=kind == 'running')
        src.check('events-handled-without-internal-error', not core.logger.tracebacks(), sig=_site(core.logger
                                                                                                   .tracebacks()),
                  log=core.logger.tracebacks()[:1])
    core.tick()
    src.check('events-handled-without-internal-error', not core.logger.tracebacks(), sig=_site(core.logger.tracebacks()),
              log=core.logger.tracebacks()[:1])
    src.reach('done')


class _OnlyInternalErrors:
    """passes everything to the source but keeps only the internal-error assertion of the reused scenario"""
    def __init__(self, src):
        self._src = src

    def __getattr__(self, name):
        return getattr(self._src, name)

    def check(self, tag, cond, **ctx):
        if tag == 'no-internal-error':
            self._src.check('job-handled-without-internal-error', cond, sig=_site(ctx.get('log')), log=ctx.get('log'))


HARNESSES = [
    Harness('H16e-local', job_timeouts, quick={'kind': 'start', 'k': 4, 'target_index': 0},
            thorough={'kind': 'start', 'k': 6, 'target_index': 0}, reach=('done',), timeout=(60, 600),
            doc='start job on the local instance: timeouts and dropped events raise no internal error'),
    Harness('H16e-stop', job_timeouts, quick={'kind': 'stop', 'k': 4, 'target_index': 1},
            thorough={'kind': 'stop', 'k': 6, 'target_index': 1}, reach=('done',), timeout=(60, 600),
            doc='stop job on a peer: same'),
    Harness('H16f', placements, quick={'n': 2}, thorough={'n': 3}, reach=('done',), timeout=(60, 600),
            doc='unplaceable / placeable start requests through the real Starter raise no internal error'),
    Harness('H16g', disturbed_distribution, quick={'n': 3}, thorough={'n': 3}, reach=('done',), timeout=(90, 300),
            doc='crashes and restarts during a real pending DISTRIBUTION leave no critical traceback'),
    Harness('H16h', formula_and_removals, quick={'k': 2}, thorough={'k': 3}, reach=('done',), timeout=(90, 600),
            doc='status formula over a pattern under process removals / additions / state events'),
    Harness('H16a', one_event, quick={'n': 2, 'fsm_states': ['SYNCHRONIZATION', 'ELECTION', 'DISTRIBUTION',
                                                             'OPERATION', 'CONCILIATION']},
            thorough={'n': 2}, reach=('done',), timeout=(200, 1800),
            doc='one arbitrary remote event from an arbitrary symbolic situation, then a tick'),
    Harness('H16b', two_events, quick={'n': 2}, thorough={'n': 3}, reach=('done',), timeout=(100, 600),
            doc='two consecutive arbitrary events on a stable member'),
    Harness('H16d', cluster_histories, quick={'n': 2, 'faults': 1}, thorough={'n': 3, 'faults': 2},
            reach=('done',), timeout=(100, 1500), doc='no critical traceback in cluster fault histories'),
]
BOUNDS = {'quick': {'instances': 2, 'event_payloads': 41, 'events': '1 from any situation / 2 from a stable member'},
          'thorough': {'all 9 Supvisors states': True, 'cluster_faults': 2}}
OUTSIDE = ['XML-RPC totality is decided by the C17 harness (every method x state x parameter class; any exception '
           'other than RPCError is a violation there)', 'statistics payloads (C20)', 'discovery notifications',
           'events of the local supervisord about programs added / removed at run time']
ASSUMPTIONS = ['payload fields have the documented types (a peer runs the same code); values are arbitrary within '
               'the listed variants', 'every instance has the same supvisors_list (a peer never names an identifier '
               'unknown to the local instance)', 'pre-state invariant of harness/fsm_common.py']
