"""C03 - start sequences are honoured for applications and their processes."""
from runner import Harness
from rig.stubs import rigged
from rig import adapter
from rig.procsim import Sim
from harness import fsm_common as FC
from supervisor.states import ProcessStates as PS

PROPERTY = 'C03'
BEHAVIOURS = ['ok', 'exit_expected', 'exit_unexpected', 'backoff_fatal', 'fatal', 'silent', 'no_resource']


class Monitor:
    """replays the ordered log (requests, forced events, delivered events) and checks the precedence rule at the
    instant of every start request"""

    def __init__(self, src, procs, apps):
        self.src = src
        self.procs = procs          # ns -> dict(app, seq, wait_exit, required)
        self.apps = apps            # app -> dict(seq, sfs)
        self.status = {ns: 'idle' for ns in procs}
        self.required_failed = {}   # app -> lowest start_sequence at which a required process failed to start
        self.unplaced = set()       # processes given up before any request (nobody can take them)
        self.stops_after_failure = {}

    def finished(self, ns):
        return self.status[ns] in ('done', 'failed')

    def on_request(self, kind, ident, ns):
        src = self.src
        if kind == 'stop':
            app = self.procs[ns]['app']
            self.stops_after_failure.setdefault(app, []).append(ns)
            # STOP strategy: stops only once the in-flight starts ended
            inflight = [q for q, d in self.procs.items() if d['app'] == app and self.status[q] in ('requested',
                                                                                                    'starting')]
            src.check('stop-after-inflight-starts-ended', not inflight, sig=self.apps[app]['sfs'], inflight=inflight)
            return
        me = self.procs[ns]
        app = me['app']
        sig = f"pseq={me['seq']}:aseq={self.apps[app]['seq']}"
        src.check('sequence-zero-process-never-started', me['seq'] > 0, sig=sig, namespec=ns)
        src.check('sequence-zero-application-never-started', self.apps[app]['seq'] > 0, sig=sig, namespec=ns)
        src.check('not-requested-twice', self.status[ns] == 'idle', sig=sig, namespec=ns, status=self.status[ns])
        for q, d in self.procs.items():
            if d['app'] == app and 0 < d['seq'] < me['seq']:
                src.check('lower-sequence-processes-finished', self.finished(q), sig=sig, namespec=ns, waiting=q,
                          status=self.status[q])
        for other, ad in self.apps.items():
            if other != app and 0 < ad['seq'] < self.apps[app]['seq']:
                for q, d in self.procs.items():
                    if d['app'] == other and d['seq'] > 0:
                        src.check('lower-sequence-applications-done', self.status[q] != 'requested'
                                  and self.status[q] != 'starting' and (self.status[q] != 'idle'
                                                                        or self.required_failed.get(other) is not None
                                                                        or self._skipped(q)),
                                  sig=sig, namespec=ns, waiting=q, status=self.status[q])
        if self.required_failed.get(app) is not None and me['seq'] > self.required_failed[app]:
            # (the processes of the failed one's own start_sequence are asked together with it)
            sfs = self.apps[app]['sfs']
            src.check('nothing-requested-after-required-failure', sfs == 'CONTINUE', sig=sfs, namespec=ns)
        self.status[ns] = 'requested'

    def _skipped(self, q):
        return False

    def _required_failure(self, d):
        """remembers the lowest start_sequence at which a required process of the application failed"""
        cur = self.required_failed.get(d['app'])
        self.required_failed[d['app']] = d['seq'] if cur is None else min(cur, d['seq'])

    def on_event(self, ns, state, expected, forced=False):
        d = self.procs.get(ns)
        if d is None:
            return
        if forced and self.status[ns] == 'idle':
            # given up before any request went out (no Supvisors instance can take it: 'No resource available')
            self.status[ns] = 'failed'
            self.unplaced.add(ns)
            if d['required']:
                self._required_failure(d)
            return
        if self.status[ns] not in ('requested', 'starting'):
            return
        if state == PS.STARTING:
            self.status[ns] = 'starting'
        elif state == PS.RUNNING:
            if not d['wait_exit']:
                self.status[ns] = 'done'
        elif state == PS.EXITED and expected and d['wait_exit']:
            self.status[ns] = 'done'
        elif state in (PS.FATAL, PS.EXITED, PS.STOPPED, PS.UNKNOWN) or forced:
            self.status[ns] = 'failed'
            if d['required']:
                self._required_failure(d)
        # BACKOFF: still starting

    def on_host_lost(self, names):
        for ns in names:
            if self.status[ns] in ('requested', 'starting'):
                self.status[ns] = 'failed'
                if self.procs[ns]['required']:
                    self._required_failure(self.procs[ns])


def _drain(core, sim, mon, cursor, behaviours, lost_ids):
    """process the new part of the ordered rpc log; answer the start requests as the fake supervisords would"""
    log = core.rpc_handler.out
    todo = []
    while cursor[0] < len(log):
        name, a = log[cursor[0]]
        cursor[0] += 1
        if name == 'send_start_process':
            mon.on_request('start', a[0], a[1])
            todo.append(('start', a[0], a[1]))
        elif name == 'send_stop_process':
            mon.on_request('stop', a[0], a[1])
            todo.append(('stop', a[0], a[1]))
        elif name == 'forced_marker':
            mon.on_event(a[0], a[1], False, forced=True)
    for kind, ident, ns in todo:
        if ident in lost_ids:
            continue
        if kind == 'stop':
            sim.ack_stop(ident, ns)
            continue
        b = behaviours[ns]
        events = {'ok': [(PS.STARTING, True), (PS.RUNNING, True)],
                  'exit_expected': [(PS.STARTING, True), (PS.RUNNING, True), (PS.EXITED, True)],
                  'exit_unexpected': [(PS.STARTING, True), (PS.RUNNING, True), (PS.EXITED, False)],
                  'backoff_fatal': [(PS.STARTING, True), (PS.BACKOFF, False), (PS.FATAL, False)],
                  'fatal': [(PS.FATAL, False)], 'silent': [], 'starting_only': [(PS.STARTING, True)]}[b]
        for state, expected in events:
            # the monitor learns the event *before* the code reacts to it (the reaction may emit requests)
            mon.on_event(ns, state, expected)
            sim.event(ident, ns, state, expected=expected, spawnerr='' if expected else 'failed')
            _drain(core, sim, mon, cursor, behaviours, lost_ids)


@rigged
def run(src, napps=1, nprocs=2, behaviours=BEHAVIOURS, rounds=9, auto=True, loss=True):
    """H03b: the real Starter / ApplicationStartJobs / ProcessStartCommand (and Stopper for STOP) inside a real Master,
    fed by fake supervisords whose behaviour, the rules and a host loss are solver-chosen"""
    from supvisors.ttypes import StartingStrategies, StartingFailureStrategies as SFS
    core = FC.operational(2)
    ids = core.ids
    sim = Sim(core)
    procs, apps, beh = {}, {}, {}
    for a in range(napps):
        app_name = f'app{a}'
        np_ = nprocs if a == 0 else 1
        for k in range(np_):
            name = f'p{k}'
            host = ids[1] if k == 0 else ids[0]          # the first process of each application lives on the peer
            beh[f'{app_name}:{name}'] = src.pick(f'{app_name}_{name}_behaviour', list(behaviours))
            # 'no_resource': the program is disabled on the only instance that knows it - nothing can be requested
            core.add_process(host, app_name, name, PS.STOPPED, startsecs=0,
                             disabled=beh[f'{app_name}:{name}'] == 'no_resource')
            p = core.context.applications[app_name].processes[name]
            seq = src.pick(f'{app_name}_{name}_seq', [0, 1, 2])
            we = (k == 0) and src.pick_flag(f'{app_name}_{name}_wait_exit')
            req = seq > 0 and src.pick_flag(f'{app_name}_{name}_required')
            adapter.set_rules(p.rules, start_sequence=seq, wait_exit=we, required=req)
            ns = f'{app_name}:{name}'
            procs[ns] = {'app': app_name, 'seq': seq, 'wait_exit': we, 'required': req, 'host': host}
        app = core.context.applications[app_name]
        aseq = src.pick(f'{app_name}_seq', [1, 2] if napps == 1 else [0, 1, 2])
        sfs = src.pick(f'{app_name}_sfs', ['ABORT', 'STOP', 'CONTINUE'])
        adapter.set_rules(app.rules, managed=True, start_sequence=aseq, starting_failure_strategy=SFS[sfs])
        for p in app.processes.values():
            adapter.set_rules(p.rules, starting_failure_strategy=SFS[sfs])
        apps[app_name] = {'seq': aseq, 'sfs': sfs}
    core.finalize_rules()
    mon = Monitor(src, procs, apps)
    # the decision to give a process up is logged when it is taken (the publication of the forced event comes
    # after the local handling, which may already have moved the sequence on)
    real_force = core.listener.force_process_state

    def force(process, identifier, event_time, forced_state, reason):
        core.rpc_handler.out.append(('forced_marker', (process.namespec, forced_state, reason)))
        return real_force(process, identifier, event_time, forced_state, reason)
    core.listener.force_process_state = force
    lose_at = src.pick('peer_lost_at_round', [None, 0, 1, 2]) if loss else None
    core.rpc_handler.out.clear()
    cursor = [0]
    lost_ids = []
    if auto:
        core.starter.start_applications()
    else:
        core.starter.start_application(StartingStrategies.CONFIG, core.context.applications['app0'])
    for r in range(rounds):
        if lose_at == r:
            # the peer dies: requests in flight are never answered, the failure is notified to the Master
            lost_ids.append(ids[1])
            # whatever was requested there and not yet answered stays unanswered (requests to the survivors are
            # answered as usual)
            _drain(core, sim, mon, cursor, beh, lost_ids)
            core.fsm.on_instance_failure(core.context.instances[ids[1]])
            mon.on_host_lost([ns for ns, d in procs.items() if d['host'] == ids[1]])
        _drain(core, sim, mon, cursor, beh, lost_ids)
        FC.cluster_round(core, silent=lost_ids)
    _drain(core, sim, mon, cursor, beh, lost_ids)
    src.reach('ran')
    if any(s != 'idle' for s in mon.status.values()):
        src.reach('something-started')
    # the only documented way to wait for ever is a wait_exit program that never exits
    waiting_exit = [ns for ns, d in procs.items() if d['wait_exit'] and beh[ns] in ('ok',) and mon.status[ns]
                    in ('starting', 'requested') and (lose_at is None)]
    if not waiting_exit:
        src.check('starter-idle-at-the-end', not core.starter.in_progress(), sig='end', status=mon.status)
    for app_name, ad in apps.items():
        never_exits = [ns for ns, d in procs.items() if d['app'] == app_name and d['wait_exit']
                       and mon.status[ns] in ('starting', 'requested')]
        if mon.required_failed.get(app_name) is not None and ad['sfs'] == 'STOP' and not never_exits:
            src.reach('stop-strategy')
            running = [n for n, p in core.context.applications[app_name].processes.items() if p.running()]
            # finding F24b: a process that nobody can take ('No resource available': disabled, or its only host lost) is
            # given up synchronously while its start_sequence group is being requested: the forced event re-enters the
            # Starter, which finds the application job empty and closes it; the processes of the same group requested
            # afterwards are orphans - they escape the STOP, and their own failure is not seen by the job any more
            sibling = any(procs[u]['app'] == app_name and d['app'] == app_name and ns != u
                          and d['seq'] == procs[u]['seq'] and mon.status[ns] != 'idle'
                          for u in mon.unplaced for ns, d in procs.items())
            sig = 'STOP:unplaceable-process-with-a-sibling-of-its-sequence' if sibling else 'STOP'
            src.check('stop-strategy-stops-the-application', not running, sig=sig, running=running)
    src.check('no-internal-error', not core.logger.tracebacks(), log=core.logger.tracebacks()[:1])
    src.obs('status', dict(mon.status))


@rigged
def plan(src, napps=2):
    """H03a: what enters the plan of the real Starter"""
    core = FC.operational(2)
    ids = core.ids
    expect = {}
    for a in range(napps):
        app_name = f'app{a}'
        aseq = src.int(f'aseq{a}', 0, 3)
        for k in range(2):
            core.add_process(ids[0], app_name, f'p{k}', PS.STOPPED)
            pseq = src.int(f'pseq{a}_{k}', 0, 3)
            adapter.set_rules(core.context.applications[app_name].processes[f'p{k}'].rules, start_sequence=pseq)
            expect[f'{app_name}:p{k}'] = (aseq, pseq)
        adapter.set_rules(core.context.applications[app_name].rules, managed=True, start_sequence=aseq)
    core.finalize_rules()
    for app in core.context.applications.values():
        if app.rules.start_sequence > 0:
            core.starter.store_application(app)
    adapter._need(core.starter, 'planned_jobs')
    planned = {}
    for prio, jobs in core.starter.planned_jobs.items():
        for app_name, job in jobs.items():
            for pseq, cmds in job.planned_jobs.items():
                for cmd in cmds:
                    planned[cmd.process.namespec] = (prio, pseq)
    for ns, (aseq, pseq) in expect.items():
        src.check('plan-holds-exactly-the-positive-sequences', (ns in planned) == ((aseq > 0) & (pseq > 0)),
                  sig='plan', namespec=ns)
        if ns in planned:
            src.check('plan-ranks-are-the-rules', planned[ns][0] == aseq and planned[ns][1] == pseq, sig='plan')
    src.reach('planned')


@rigged
def sequence_owned_elsewhere(src):
    """H03d: restart_sequence asked to an instance whose own Starter is idle while another instance drives a start
    sequence (its starting_jobs are published): refused, nothing requested - otherwise the local Starter would re-plan
    the application and request a process before the lower start_sequence, still STARTING for the other instance, has
    finished"""
    from supervisor.xmlrpc import RPCError
    core = FC.operational(2)
    ids = core.ids
    for i in ids:
        core.add_process(i, 'app', 'first', PS.STOPPED)
        core.add_process(i, 'app', 'second', PS.STOPPED)
    app = core.context.applications['app']
    adapter.set_rules(app.rules, managed=True, start_sequence=1)
    adapter.set_rules(app.processes['first'].rules, start_sequence=1, required=True)
    adapter.set_rules(app.processes['second'].rules, start_sequence=2, required=True)
    core.finalize_rules()
    busy = src.pick('jobs_in_progress', ['starting-on-the-peer', 'stopping-on-the-peer', 'nowhere'])
    if busy != 'nowhere':
        adapter.plant_peer_state_modes(core, ids[1], **{busy.split('-')[0] + '_jobs': True})
        core.process_event(ids[1], 'app', 'first', PS.STARTING)
    core.rpc_handler.out.clear()
    fault = None
    try:
        core.rpc_intf.restart_sequence(False)
    except RPCError as exc:
        fault = exc.code
    requests = [(n, a[:2]) for n, a in core.rpc_handler.out if n in ('send_start_process', 'send_stop_process')]
    if busy == 'nowhere':
        src.reach('served')
        src.check('served-when-nothing-is-in-progress', fault is None, sig=busy, fault=fault)
    else:
        src.reach('refused')
        src.check('refused-while-a-sequence-is-in-progress-elsewhere', fault == 101 and not requests, sig=busy,
                  fault=fault, requests=requests)


INITIAL = {'stopped': PS.STOPPED, 'running': PS.RUNNING, 'fatal': PS.FATAL, 'crashed': PS.EXITED}


class SelectionMonitor(Monitor):
    """only the clauses that do not depend on what the applications were doing before the sequence"""

    def on_request(self, kind, ident, ns):
        src = self.src
        if kind == 'stop':
            return
        me = self.procs[ns]
        app = me['app']
        sig = f"pseq={me['seq']}:aseq={self.apps[app]['seq']}:app-state={self.apps[app]['initial']}"
        src.check('sequence-zero-process-never-started', me['seq'] > 0, sig=sig, namespec=ns)
        src.check('sequence-zero-application-never-started', self.apps[app]['seq'] > 0, sig=sig, namespec=ns)
        src.check('running-process-not-requested', me['initial'] != 'running', sig=sig, namespec=ns)
        src.check('not-requested-twice', self.status[ns] == 'idle', sig=sig, namespec=ns, status=self.status[ns])
        self.status[ns] = 'requested'


@rigged
def selection(src, napps=2, nprocs=2, rounds=5):
    """H03c: which applications and processes an automatic sequence (real Starter.start_applications, the entry point
    of the Master's distribution and of restart_sequence) starts when the applications are not all freshly stopped:
    processes already running, FATAL or crashed, required or not - so applications never started, running, in minor or
    in major failure"""
    core = FC.operational(2)
    ids = core.ids
    sim = Sim(core)
    procs, apps, beh = {}, {}, {}
    for a in range(napps):
        app_name = f'app{a}'
        states = []
        for k in range(nprocs):
            name = f'p{k}'
            init = src.pick(f'{app_name}_{name}_initial', list(INITIAL))
            states.append(init)
            core.add_process(ids[0], app_name, name, INITIAL[init], startsecs=0,
                             spawnerr='failed' if init == 'fatal' else '', expected=init != 'crashed',
                             start=0 if init == 'stopped' else 900, stop=0 if init in ('stopped', 'running') else 950,
                             pid=0 if init != 'running' else 10 + k)
            p = core.context.applications[app_name].processes[name]
            seq = src.pick(f'{app_name}_{name}_seq', [0, 1])
            req = seq > 0 and src.pick_flag(f'{app_name}_{name}_required')
            adapter.set_rules(p.rules, start_sequence=seq, required=req)
            ns = f'{app_name}:{name}'
            procs[ns] = {'app': app_name, 'seq': seq, 'wait_exit': False, 'required': req, 'host': ids[0],
                         'initial': init}
            beh[ns] = 'ok'
        aseq = src.pick(f'{app_name}_seq', [0, 1])
        adapter.set_rules(core.context.applications[app_name].rules, managed=True, start_sequence=aseq)
        apps[app_name] = {'seq': aseq, 'sfs': 'ABORT', 'initial': '+'.join(sorted(set(states)))}
    core.finalize_rules()
    for app_name in apps:
        app = core.context.applications[app_name]
        if app.minor_failure:
            src.reach('minor-failure')
        if app.major_failure:
            src.reach('major-failure')
    mon = SelectionMonitor(src, procs, apps)
    core.rpc_handler.out.clear()
    cursor = [0]
    core.starter.start_applications()
    for r in range(rounds):
        _drain(core, sim, mon, cursor, beh, [])
        FC.cluster_round(core)
    _drain(core, sim, mon, cursor, beh, [])
    src.reach('ran')
    if any(s != 'idle' for s in mon.status.values()):
        src.reach('something-started')
    src.check('starter-idle-at-the-end', not core.starter.in_progress(), sig='end', status=mon.status)
    src.check('no-internal-error', not core.logger.tracebacks(), log=core.logger.tracebacks()[:1])
    src.obs('status', dict(mon.status))


HARNESSES = [
    Harness('H03d', sequence_owned_elsewhere, quick={}, thorough={}, reach=('served', 'refused'), timeout=(30, 30),
            doc='restart_sequence refused while another instance has start / stop jobs in progress'),
    Harness('H03c', selection, quick={'napps': 2}, thorough={'napps': 2, 'nprocs': 3},
            reach=('ran', 'something-started', 'minor-failure', 'major-failure'), timeout=(100, 900),
            doc='automatic sequence over applications already running / in minor / in major failure: sequence 0 is '
                'never started, running processes are not requested'),
    Harness('H03a', plan, quick={'napps': 2}, thorough={'napps': 2}, reach=('planned',), timeout=(60, 120),
            doc='applications / processes with start_sequence 0 never enter the plan; ranks are the rules'),
    Harness('H03b', run, quick={'napps': 1, 'nprocs': 2}, thorough={'napps': 1, 'nprocs': 3},
            reach=('ran', 'something-started', 'stop-strategy'), timeout=(150, 1500),
            doc='one application, symbolic sequences / wait_exit / required / strategy / behaviours / host loss'),
    Harness('H03b-2apps', run, quick={'napps': 2, 'nprocs': 1, 'behaviours': ['ok', 'fatal', 'silent'],
                                       'loss': False},
            thorough={'napps': 2, 'nprocs': 2, 'behaviours': ['ok', 'exit_expected', 'fatal', 'silent']},
            reach=('ran', 'something-started'), timeout=(120, 1500), doc='two applications: application ranks'),
]
BOUNDS = {'quick': {'applications': '1 (2 processes) and 2 (1 process each)', 'behaviours': BEHAVIOURS,
                    'rounds': 9, 'host_loss': 'none or at round 0..2'},
          'thorough': {'applications': '1 (3 processes) and 2 (2 + 1 processes)'}}
OUTSIDE = ['larger plans', 'start_any_process', 'homogeneous groups (# / @, C18)', 'concurrent user requests on two '
           'instances', 'the delivery order of events of different processes is the request order (FIFO per sender)']
ASSUMPTIONS = ['supervisords simulated by rig/procsim.py with a solver-chosen behaviour per process',
               'startsecs = 0; tick margin 2', 'the first process of each application is hosted by the peer, the '
               'others by the local instance']
