"""C08 - after disturbances the cluster returns to OPERATION; nobody stays parked."""
from runner import Harness
from rig.stubs import rigged
from rig import adapter
from harness import fsm_common as FC
from harness import c02

PROPERTY = 'C08'


def _refused(core):
    """transitions decided by the state classes but refused by the transition table"""
    out = []
    for m in core.logger.criticals:
        if isinstance(m, str) and 'unexpected transition from' in m:
            out.append(m.split('unexpected transition from ')[1].strip())
    return out


@rigged
def no_refused_decision(src, n=2, peer_views='abstract', steps=c02.BASE_STEPS, fsm_states=FC.FSM,
                        sync=FC.SYNC_CHOICES):
    """H08a: whatever a state decides from any situation is accepted by set_state; a refused decision parks the
    instance because the same decision is taken again at every evaluation"""
    st, ev_from = c02.pick_step(src, n, steps)
    core, sit = FC.build(src, n=n, peer_views=peer_views, fsm_states=fsm_states, blank_peer=ev_from,
                         failure=('CONTINUE', 'RESYNC'), sync=sync)
    sit.update(step=st, ev_from=ev_from, peer_views=peer_views)
    if st in ('restart', 'shutdown', 'end_sync'):
        from supvisors.ttypes import SupvisorsInstanceStates as S
        src.assume(sit['ist'][0] == S.RUNNING)
    c02.do_step(src, core, sit, steps)
    refused = _refused(core)
    is_master = src.conc(core.state_modes.master_identifier) == core.local_identifier
    for r in refused:
        if st in ('restart', 'shutdown', 'process_crash'):
            continue    # a refused *request* is not a parked instance (C06 / C09 / C17 cover the requests)
        # a Slave mirroring a Master state that it cannot reach directly just waits for the Master to move on
        mirror = (not is_master) and sit['fsm'] in FC.WORKING + ['RESTARTING', 'SHUTTING_DOWN']
        if mirror and core.state_modes.master_state is not None:
            target = src.conc(core.state_modes.master_state).name
            if r.endswith('to ' + target) or r.endswith('to <sym>'):   # a symbolic name only comes from the Master
                continue
        r = r.replace('<sym>', src.conc(core.state_modes.master_state).name
                      if core.state_modes.master_state is not None else '?')
        src.check('decision-accepted', False, sig=r.replace(' ', ''), step=st)
    src.reach('evaluated')
    src.obs('refused', len(refused))
    src.obs('state', core.fsm.state.name)


@rigged
def catch_up(src, n=2, evaluations=3):
    """H08b: a non-Master in any Supvisors state, in a stable cluster whose Master stays in OPERATION or
    CONCILIATION, is in the Master's state after a bounded number of evaluations"""
    from supvisors.ttypes import SupvisorsInstanceStates as S, SupvisorsStates as F
    local = src.pick('local_fsm', ['SYNCHRONIZATION', 'ELECTION', 'DISTRIBUTION', 'OPERATION', 'CONCILIATION'])
    core, sit = FC.build(src, n=n, fsm_states=[local], sync=('LIST', 'LIST,TIMEOUT', 'USER'), failure=('CONTINUE',
                         'RESYNC'), jobs=False, conflict=False, invariant=False)
    ids = sit['ids']
    master = ids[1]
    mstate = src.pick('master_fsm', ['OPERATION', 'CONCILIATION'])
    # stable cluster: everybody RUNNING for everybody, one recognised Master (a peer), which stays put
    for k, i in enumerate(ids):
        adapter.plant_instance_state(core, i, S.RUNNING)
    knows_master = src.pick_flag('local_knows_master')
    adapter.plant_peer_state_modes(core, ids[0], master_identifier=master if knows_master else '')
    for k in range(1, n):
        adapter.plant_peer_state_modes(core, ids[k], state=F[mstate], master_identifier=master,
                                       instance_states={i: S.RUNNING for i in ids})
    core.rpc_handler.out.clear()
    for e in range(evaluations):
        core.tick()
        for k in range(1, n):
            core.peer_tick(ids[k], e + 1)
    final = core.fsm.state.name
    # the other instances see what the local one publishes: it must have told its Master before being admitted
    src.check('back-in-master-state', final == mstate, sig=f'{local}-under-master-{mstate}', final=final,
              knows_master=knows_master)
    src.reach('done')
    src.obs('final', final)


@rigged
def recovery(src, n=2, faults=1, delays=0, rounds=6, closing=12, configs=('LIST+TIMEOUT', 'CORE'),
             fences=(False, True), failures=('CONTINUE',), split_brain=0, distribution=False):
    """H08c: after a solver-chosen disturbance and a bounded number of quiet rounds every live, mutually reachable,
    non-isolated instance is in the state of its Master - OPERATION (CONCILIATION with the USER strategy and a
    conflict) - with no start / stop job pending"""
    from harness import cluster_common as CC
    if distribution:
        cl, cfg, plan, senders, traces, sig = CC.distribution_schedule(src, n, closing, configs, fences, failures)
    elif split_brain:
        # a partition of 1..split_brain rounds (each side keeps or elects its Master) that heals
        cl, cfg, plan, senders, traces = CC.run_schedule(src, n=n, rounds=max(CC.SPLIT_STARTS) + 1 + split_brain, closing=closing,
                                                         configs=configs, fences=fences, failures=failures,
                                                         plan_fn=CC.split_brain_plan(n, split_brain))
        sig = CC.separation_length(plan) + '-then-heal'
    else:
        cl, cfg, plan, senders, traces = CC.run_schedule(src, n=n, rounds=rounds, closing=closing, faults=faults,
                                                         delays=delays, configs=configs, fences=fences,
                                                         failures=failures)
        sig = '+'.join(k[0] for _, _, k in plan) or 'none'
    for g in CC.groups(cl):
        if 'TIMEOUT' not in cfg['synchro_options'] and len(g) < n:
            continue        # the configured synchronization condition cannot be met (excluded by the statement)
        states = {c.ident: c.fsm.state.name for c in g}
        conflict = any(c.context.conflicting() for c in g)
        expected = ('OPERATION', 'CONCILIATION') if conflict else ('OPERATION',)
        for c in g:
            st = c.rpc_intf.get_supvisors_state()
            src.check('back-to-operation', st['fsm_statename'] in expected, sig=sig, instance=c.ident, states=states,
                      trace=traces.get(c.ident), config=cfg)
            src.check('no-job-pending', not st['starting_jobs'] and not st['stopping_jobs'], sig=sig,
                      instance=c.ident, state=st)
    src.check('no-internal-error', not cl.criticals(), sig=sig, log=cl.criticals()[:1])
    src.reach('quiescent')
    src.obs('states', {c.ident: c.fsm.state.name for c in cl.live()})


@rigged
def distribution_survives_loss(src, rounds=8):
    """H08d: a real Master enters DISTRIBUTION and requests starts on a peer; the peer is lost at a solver-chosen
    moment (before the request is acknowledged, while STARTING, after RUNNING); the Master must be in OPERATION with no
    job pending within a bounded number of rounds - and the same for a stop job pending in OPERATION"""
    from rig.procsim import Sim
    from rig import adapter
    from supervisor.states import ProcessStates as PS
    from supvisors.ttypes import SupvisorsStates as F
    kind = src.pick('job', ['distribution-start', 'operation-stop'])
    core = FC.operational(2, fsm='ELECTION' if kind == 'distribution-start' else 'OPERATION',
                          align=kind != 'distribution-start')
    ids = core.ids
    sim = Sim(core)
    core.add_process(ids[1], 'app', 'p', PS.STOPPED, startsecs=0, stopwaitsecs=0)
    core.add_process(ids[0], 'app', 'q', PS.STOPPED, startsecs=0)
    app = core.context.applications['app']
    adapter.set_rules(app.rules, managed=True, start_sequence=1)
    adapter.set_rules(app.processes['p'].rules, start_sequence=1)
    adapter.set_rules(app.processes['q'].rules, start_sequence=2)
    core.finalize_rules()
    if kind == 'operation-stop':
        core.process_event(ids[1], 'app', 'p', PS.RUNNING)
        core.stopper.stop_application(app)
    else:
        FC.cluster_round(core)          # ELECTION -> DISTRIBUTION: the Master starts the applications
    reqs = sim.new_requests()
    src.check('job-started', len(reqs) == 1 and reqs[0][1] == ids[1], sig=kind, reqs=reqs, state=core.fsm.state.name)
    progress = src.pick('progress_before_loss', ['none', 'acknowledged', 'done'])
    first = PS.STARTING if kind == 'distribution-start' else PS.STOPPING
    last = PS.RUNNING if kind == 'distribution-start' else PS.STOPPED
    if progress in ('acknowledged', 'done'):
        core.process_event(ids[1], 'app', 'p', first)
    if progress == 'done':
        core.process_event(ids[1], 'app', 'p', last)
    how = src.pick('loss', ['silent', 'rpc_failure'])
    if how == 'rpc_failure':
        core.fsm.on_instance_failure(core.context.instances[ids[1]])
    for r in range(rounds):
        FC.cluster_round(core, silent=[ids[1]])
        for k, ident, ns in sim.new_requests():
            if ident != ids[1]:
                if k == 'start':
                    sim.ack_start(ident, ns)
                else:
                    sim.ack_stop(ident, ns)
    st = core.rpc_intf.get_supvisors_state()
    sig = f'{kind}:{progress}:{how}'
    src.check('not-parked', st['fsm_statename'] == 'OPERATION', sig=sig, state=st['fsm_statename'])
    src.check('no-job-pending', not core.starter.in_progress() and not core.stopper.in_progress(), sig=sig)
    src.check('no-internal-error', not core.logger.tracebacks(), sig=sig, log=core.logger.tracebacks()[:1])
    src.reach('done')


HARNESSES = [
    Harness('H08d', distribution_survives_loss, quick={}, thorough={'rounds': 12}, reach=('done',), timeout=(60, 120),
            doc='loss of the target of a pending start (DISTRIBUTION) or stop (OPERATION) job'),
    Harness('H08c', recovery, quick={'n': 2, 'faults': 1, 'delays': 0},
            thorough={'n': 3, 'faults': 2, 'delays': 0}, reach=('quiescent',), timeout=(150, 1800),
            doc='return to OPERATION after a solver-chosen disturbance of a real cluster'),
    Harness('H08c-split', recovery, quick={'n': 2, 'split_brain': 8}, thorough={'n': 3, 'split_brain': 8},
            reach=('quiescent',), timeout=(150, 1500),
            doc='return to OPERATION after a split brain (partition of 1..8 rounds, then heal)'),
    Harness('H08c-distribution', recovery, quick={'n': 3, 'distribution': True, 'configs': ('LIST+TIMEOUT',),
                                                  'fences': (False,), 'closing': 14},
            thorough={'n': 3, 'distribution': True, 'closing': 14}, reach=('quiescent',), timeout=(150, 1500),
            doc='two crashes / restarts while a real DISTRIBUTION is pending (real rules, slow supervisords)'),
    Harness('H08c-resync', recovery, quick={'n': 2, 'faults': 1, 'delays': 0, 'failures': ('RESYNC',),
                                            'configs': ('LIST', 'LIST+TIMEOUT'), 'fences': (False,)},
            thorough=None, reach=('quiescent',), timeout=(100, 0), doc='same with supvisors_failure_strategy RESYNC'),
    Harness('H08c-delays', recovery, quick=None, thorough={'n': 2, 'faults': 1, 'delays': 1}, reach=('quiescent',),
            timeout=(0, 1800), doc='same with one held task'),
    Harness('H08a', no_refused_decision, quick={'n': 2, 'steps': ('tick', 'state_event'),
                                                'sync': ('LIST', 'TIMEOUT', 'CORE', 'USER')},
            thorough={'n': 2, 'peer_views': 'full'},
            reach=('evaluated',), timeout=(240, 1800),
            doc='no decision of a state class is refused by the transition table (unexpected transition)'),
]
BOUNDS = {'quick': {'instances': 2, 'steps': 1, 'catch_up_evaluations': 3}, 'thorough': {'instances': '2..3'}}
OUTSIDE = ['liveness beyond the bounded number of evaluations is a bounded claim, not a fairness proof',
           'N > 3', 'supvisors_failure_strategy=SHUTDOWN (excluded by the statement)']
ASSUMPTIONS = ['pre-state invariant of harness/fsm_common.py', 'H08b: the Master stays put during the evaluations']
