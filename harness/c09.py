"""C09 - stop sequences are honoured; restart/shutdown is orderly and reaches everyone."""
from runner import Harness
from rig.stubs import rigged
from rig import adapter
from rig.procsim import Sim
from harness import fsm_common as FC
from supervisor.states import ProcessStates as PS

PROPERTY = 'C09'
BEHAVIOURS = ['prompt', 'slow', 'never', 'silent']


class StopMonitor:
    def __init__(self, src, procs, apps):
        self.src, self.procs, self.apps = src, procs, apps
        self.lost = set()
        # per (namespec, identifier): running | requested | stopping | stopped (incl. given up)
        self.status = {}
        for ns, d in procs.items():
            for h in d['hosts']:
                self.status[(ns, h)] = 'running'

    def active(self, ns):
        return [h for (n, h), s in self.status.items() if n == ns and s in ('running', 'requested', 'stopping')]

    def on_request(self, ident, ns):
        src = self.src
        d = self.procs.get(ns)
        src.check('stop-only-known-process', d is not None, sig='unknown', namespec=ns)
        me_seq = d['stop_seq']
        sig = f"pseq={me_seq}:aseq={self.apps[d['app']]['stop_seq']}"
        if ident not in self.lost:       # until it is invalidated, a dying instance still looks alive to the Master
            src.check('stop-only-where-running', self.status.get((ns, ident)) == 'running', sig=sig, namespec=ns,
                      target=ident, status=self.status.get((ns, ident)))
        for q, dq in self.procs.items():
            if dq['app'] == d['app'] and dq['stop_seq'] > me_seq:
                src.check('higher-stop-sequence-finished-first', not self.active(q), sig=sig, namespec=ns, waiting=q,
                          status={str(k): v for k, v in self.status.items()})
        for other, ad in self.apps.items():
            if other != d['app'] and ad['stop_seq'] > self.apps[d['app']]['stop_seq']:
                for q, dq in self.procs.items():
                    if dq['app'] == other:
                        src.check('higher-application-stop-sequence-finished-first', not self.active(q), sig=sig,
                                  namespec=ns, waiting=q)
        # a request sent to an instance that is already lost (not invalidated yet) cannot be pending anywhere
        self.status[(ns, ident)] = 'stopped' if ident in self.lost else 'requested'

    def on_event(self, ns, ident, state, forced=False):
        if forced:
            # the stop was given up (timeout): the command is over for the sequencer
            for key in self.status:
                if key[0] == ns and self.status[key] in ('requested', 'stopping'):
                    self.status[key] = 'stopped'
            return
        if (ns, ident) not in self.status:
            return
        if state in (PS.STOPPED, PS.EXITED, PS.FATAL, PS.UNKNOWN):
            self.status[(ns, ident)] = 'stopped'
        elif state == PS.STOPPING:
            self.status[(ns, ident)] = 'stopping'

    def on_host_lost(self, ident):
        self.lost.add(ident)
        for key in self.status:
            if key[1] == ident:
                self.status[key] = 'stopped'


def _drain(core, sim, mon, cursor, beh, lost_ids, slow, orders, reached=None):
    log = core.rpc_handler.out
    batch = []
    while cursor[0] < len(log):
        name, a = log[cursor[0]]
        cursor[0] += 1
        if name == 'send_stop_process':
            mon.on_request(a[0], a[1])
            batch.append((a[0], a[1]))
        elif name == 'stop_emission':
            # what Supvisors itself knew when it sent the request
            mon.src.check('stop-sent-where-supvisors-lists-the-process-running', a[0] in a[2],
                          sig=f'target-{a[3]}', namespec=a[1], target=a[0], running_identifiers=a[2])
        elif name == 'send_start_process':
            mon.src.check('ending-phase-starts-nothing', False, sig='start', namespec=a[1])
        elif name == 'forced_marker':
            mon.on_event(a[0], None, a[1], forced=True)
        elif name in ('send_restart', 'send_shutdown'):
            orders.append((name, a[0], core.stopper.in_progress()))
    # processes sharing a stop_sequence are asked together
    groups = {(mon.procs[ns]['app'], mon.procs[ns]['stop_seq']) for _, ns in batch}
    for app, seq in groups:
        for q, d in mon.procs.items():
            if d['app'] == app and d['stop_seq'] == seq:
                for h in d['hosts']:
                    if h not in lost_ids:
                        mon.src.check('same-stop-sequence-asked-together', mon.status[(q, h)] != 'running',
                                      sig=f'seq={seq}', namespec=q, host=h)
    for ident, ns in batch:
        if ident in lost_ids:
            if reached and reached(ident, ns):
                # the request reached the dying instance: the process was STOPPING when it vanished
                mon.on_event(ns, ident, PS.STOPPING)
                sim.event(ident, ns, PS.STOPPING)
            continue
        b = beh[ns]
        if b == 'silent':
            continue
        mon.on_event(ns, ident, PS.STOPPING)
        sim.event(ident, ns, PS.STOPPING)
        if b == 'prompt':
            mon.on_event(ns, ident, PS.STOPPED)
            sim.event(ident, ns, PS.STOPPED)
            _drain(core, sim, mon, cursor, beh, lost_ids, slow, orders)
        elif b == 'slow':
            slow.append([2, ident, ns])


@rigged
def ending(src, napps=1, nprocs=2, order=('restart', 'shutdown'), rounds=10, loss=True, master=True,
           lean=False, second=False):
    """H09a/b: supvisors.restart / shutdown issued on a real Master (or non-Master): the real _EndingState classes,
    Stopper, ApplicationStopJobs, ProcessStopCommand against fake supervisords with solver-chosen rules, placement,
    stop behaviours and the loss of the peer during the ending phase"""
    core = FC.operational(2, master=0 if master else 1)
    ids = core.ids
    sim = Sim(core)
    procs, apps, beh = {}, {}, {}
    for a in range(napps):
        app_name = f'app{a}'
        for k in range(nprocs if a == 0 else 1):
            name = f'p{k}'
            hosts = (0,) if lean else src.pick(f'{app_name}_{name}_hosts',
                                               [(0,), (1,), (0, 1)] if k == 0 else [(1,), ()])
            for i in ids:
                core.add_process(i, app_name, name, PS.STOPPED, stopwaitsecs=0)
            # (the first process may still be STARTING when the ending phase begins: it has to be stopped all the same)
            first_state = PS.RUNNING if lean or k > 0 or not hosts else src.pick(f'{app_name}_{name}_state',
                                                                                  [PS.RUNNING, PS.STARTING])
            for h in hosts:
                core.process_event(ids[h], app_name, name, PS.STARTING)
                if first_state == PS.RUNNING:
                    core.process_event(ids[h], app_name, name, PS.RUNNING)
            p = core.context.applications[app_name].processes[name]
            start_seq = 1 if lean else src.pick(f'{app_name}_{name}_start_seq', [1, 2])
            stop_seq = -1 if lean else src.pick(f'{app_name}_{name}_stop_seq', [-1, 0, 1, 2])
            adapter.set_rules(p.rules, start_sequence=start_seq, stop_sequence=stop_seq)
            ns = f'{app_name}:{name}'
            procs[ns] = {'app': app_name, 'hosts': [ids[h] for h in hosts],
                         'stop_seq': stop_seq if stop_seq >= 0 else start_seq}
            beh[ns] = src.pick(f'{app_name}_{name}_behaviour', ['prompt', 'never'] if lean else BEHAVIOURS)
        app = core.context.applications[app_name]
        a_start = src.pick(f'{app_name}_start_seq', [0, 1, 2]) if napps > 1 else 1
        a_stop = src.pick(f'{app_name}_stop_seq', [-1, 1, 2]) if napps > 1 else -1
        managed = src.pick_flag(f'{app_name}_managed')
        adapter.set_rules(app.rules, managed=managed, start_sequence=a_start, stop_sequence=a_stop)
        apps[app_name] = {'stop_seq': a_stop if a_stop >= 0 else a_start}
    core.finalize_rules()
    mon = StopMonitor(src, procs, apps)
    real_force = core.listener.force_process_state

    def force(process, identifier, event_time, forced_state, reason):
        core.rpc_handler.out.append(('forced_marker', (process.namespec, forced_state, reason)))
        return real_force(process, identifier, event_time, forced_state, reason)
    core.listener.force_process_state = force
    real_stop = core.rpc_handler.send_stop_process

    def send_stop(identifier, namespec):
        group, name = namespec.split(':')
        proc = core.context.applications[group].processes[name]
        core.rpc_handler.out.append(('stop_emission', (identifier, namespec, sorted(proc.running_identifiers),
                                                       core.context.instances[identifier].state.name)))
        return real_stop(identifier, namespec)
    core.rpc_handler.send_stop_process = send_stop
    what = src.pick('order', list(order))
    lose_at = src.pick('peer_lost_at_round', [None, 0, 1]) if loss and master else None
    core.rpc_handler.out.clear()
    cursor, lost_ids, slow, orders = [0], [], [], []
    getattr(core.rpc_intf, what)()
    final_state = 'RESTARTING' if what == 'restart' else 'SHUTTING_DOWN'
    if not master:
        # the order is re-routed to the Master; the local instance follows what the Master publishes
        rer = [a for n, a in core.rpc_handler.out if n in ('send_restart_all', 'send_shutdown_all')]
        src.check('order-reaches-the-master', rer == [(ids[1],)], sig=what, sent=rer)
        src.check('non-master-waits-for-its-master', core.fsm.state.name == 'OPERATION', sig=what)
        src.reach('non-master')
        from supvisors.ttypes import SupvisorsStates as F, SupvisorsInstanceStates as S
        payload = dict(core.state_modes.instance_state_modes[ids[1]].serial())
        for st in (final_state, final_state, 'FINAL'):
            payload = dict(payload, fsm_statecode=F[st].value, fsm_statename=st)
            core.fsm.on_state_event(core.context.instances[ids[1]], payload)
            _drain(core, sim, mon, cursor, beh, lost_ids, slow, orders)
            if st != 'FINAL':
                src.check('non-master-follows', core.fsm.state.name == st, sig=what, state=core.fsm.state.name)
                src.check('no-order-while-master-is-ending', not orders, sig=what)
        src.check('non-master-final', core.fsm.state.name == 'FINAL', sig=what, state=core.fsm.state.name)
        src.check('exactly-one-local-order', [o[:2] for o in orders] == [('send_' + what, ids[0])], sig=what,
                  orders=orders)
        src.check('non-master-stops-nothing', not [1 for n, a in core.rpc_handler.out if n == 'send_stop_process'],
                  sig=what)
        return
    src.reach('master')
    src.check('master-enters-ending-state', core.fsm.state.name in (final_state, 'FINAL'), sig=what,
              state=core.fsm.state.name)
    # a second ending request may arrive while the first one is in progress (from a user, or re-routed by another
    # instance): it is served or refused, but the Supervisor still receives exactly one order - the first one
    again = src.pick('second_request', [None, 'restart', 'shutdown']) if second else None
    for r in range(rounds):
        if again is not None and r == 1:
            from supervisor.xmlrpc import RPCError
            try:
                getattr(core.rpc_intf, again)()
            except RPCError:
                pass
            if core.fsm.state.name in ('RESTARTING', 'SHUTTING_DOWN'):
                src.reach('second-request-while-ending')
        if lose_at == r:
            lost_ids.append(ids[1])
            # requests in flight to the dying instance are never answered (they may have reached it); the requests to
            # the survivors are answered as usual
            _drain(core, sim, mon, cursor, beh, lost_ids, slow, orders,
                   reached=lambda ident, ns: src.pick_flag(f'lost_request_reached_{ns}'))
            core.fsm.on_instance_failure(core.context.instances[ids[1]])
            mon.on_host_lost(ids[1])
        _drain(core, sim, mon, cursor, beh, lost_ids, slow, orders)
        for item in list(slow):
            item[0] -= 1
            if item[0] <= 0 and item[1] not in lost_ids:
                slow.remove(item)
                mon.on_event(item[2], item[1], PS.STOPPED)
                sim.event(item[1], item[2], PS.STOPPED)
        _drain(core, sim, mon, cursor, beh, lost_ids, slow, orders)
        FC.cluster_round(core, silent=lost_ids)
    _drain(core, sim, mon, cursor, beh, lost_ids, slow, orders)
    src.reach('ran')
    src.check('stopper-idle-at-the-end', not core.stopper.in_progress(), sig=what,
              status={str(k): v for k, v in mon.status.items()})
    src.check('final-state-reached', core.fsm.state.name == 'FINAL', sig=what, state=core.fsm.state.name)
    src.check('exactly-one-local-order', [o[:2] for o in orders] == [('send_' + what, ids[0])], sig=what,
              orders=orders)
    src.check('order-only-after-everything-is-stopped', all(not o[2] for o in orders), sig=what, orders=orders)
    still = [k for k, v in mon.status.items() if v == 'running' and k[1] not in lost_ids]
    src.check('everything-was-asked-to-stop', not still, sig=what, still=[str(k) for k in still])
    src.check('no-internal-error', not core.logger.tracebacks(), log=core.logger.tracebacks()[:1])
    src.obs('orders', [list(o) for o in orders])


HARNESSES = [
    Harness('H09-master', ending, quick={'napps': 1, 'nprocs': 2}, thorough={'napps': 2, 'nprocs': 2},
            reach=('master', 'ran'), timeout=(150, 1500),
            doc='restart / shutdown on the Master: stop sequences, placement, behaviours, loss of the peer'),
    Harness('H09-twice', ending, quick={'napps': 1, 'nprocs': 1, 'loss': False, 'second': True},
            thorough={'napps': 1, 'nprocs': 2, 'loss': False, 'second': True},
            reach=('master', 'ran', 'second-request-while-ending'), timeout=(60, 300),
            doc='a second restart / shutdown request while the first one is in progress: still exactly one order'),
    Harness('H09-slave', ending, quick={'napps': 1, 'nprocs': 1, 'master': False, 'loss': False},
            thorough={'napps': 1, 'nprocs': 1, 'master': False, 'loss': False}, reach=('non-master',),
            timeout=(60, 120), doc='restart / shutdown issued on a non-Master'),
    Harness('H09-2apps', ending, quick={'napps': 2, 'nprocs': 1, 'loss': False, 'order': ('shutdown',), 'lean': True},
            thorough=None, reach=('master', 'ran'), timeout=(120, 0), doc='application stop ranks'),
]
BOUNDS = {'quick': {'applications': '1 (2 processes) / 2 (1 process each)', 'behaviours': BEHAVIOURS,
                    'rounds': 10, 'peer_loss': 'none or at round 0..2, request reached the peer or not'},
          'thorough': {'applications': '2 (2 + 1 processes)'}}
OUTSIDE = ['N > 2 (the order reaching every other instance is the cluster harness claim)', 'stopwaitsecs > 0 (C10)',
           'more than 2 processes per application']
ASSUMPTIONS = ['supervisords simulated with a solver-chosen stop behaviour per process', 'tick margin 2',
               'the Master publications followed by a non-Master are RESTARTING/SHUTTING_DOWN then FINAL']
