"""C18 - rules and options resolve totally, in-domain, with documented precedence."""
import builtins
import itertools
import math
import re
import xml.etree.ElementTree as ET

from runner import Harness
from rig.stubs import rigged, RecLogger, DummySupervisord
from rig.core import Core

PROPERTY = 'C18'


class _Numbers:
    """stub for int() / float() of configuration *text* inside supvisors.sparser / supvisors.options: a token
    '@name@' converts to the solver variable of that name, anything else goes to the real conversion"""

    def __init__(self):
        self.values = {}

    def install(self, module):
        module.int = self.to_int
        module.float = self.to_float
        if 'integer' in module.__dict__:          # supervisor.datatypes.integer imported by name in options.py
            self._integer = module.integer
            module.integer = self.to_int

    def remove(self, module):
        for n in ('int', 'float'):
            module.__dict__.pop(n, None)
        if hasattr(self, '_integer'):
            module.integer = self._integer

    def to_int(self, text, *a):
        if isinstance(text, str) and text.strip() in self.values:
            return self.values[text.strip()]
        return builtins.int(text, *a)

    def to_float(self, text):
        if isinstance(text, str) and text.strip() in self.values:
            return self.values[text.strip()]
        return builtins.float(text)


def _parser(core, docs, numbers):
    """the real Parser on in-memory documents (file reading and XSD validation are outside: ElementTree branch)"""
    import supvisors.sparser as SP
    numbers.install(SP)
    real_parse = SP.Parser.parse
    SP.Parser.parse = lambda self, filename: ET.ElementTree(ET.fromstring(docs[filename]))
    try:
        core.options.rules_files = list(docs)
        return SP.Parser(core)
    finally:
        SP.Parser.parse = real_parse


def _text(src, name, numbers, lo, hi, extra=('abc',)):
    """text of a numeric element: absent, a symbolic integer, or a non-numeric word"""
    kind = src.pick(f'{name}_kind', ['absent', 'number'] + list(extra))
    if kind == 'absent':
        return None, None
    if kind == 'number':
        v = src.int(name, lo, hi)
        token = f'@{name}@'
        numbers.values[token] = v
        return token, v
    return kind, None


def _elt(tag, text):
    return '' if text is None else f'<{tag}>{text}</{tag}>'


@rigged
def domains(src, level='program'):
    """H18a: value domains, defaults and dependencies through the real Parser / ProcessRules / ApplicationRules"""
    import supvisors.sparser as SP
    from supvisors.process import ProcessRules
    from supvisors.application import ApplicationRules
    core = Core(1, 0)
    numbers = _Numbers()
    prog = level == 'program'
    none = (None, None)
    p_start, v_start = _text(src, 'p_start', numbers, -3, 5) if prog else ('1', 1)
    p_stop, v_stop = _text(src, 'p_stop', numbers, -3, 5) if prog else none
    p_load, v_load = _text(src, 'p_load', numbers, -5, 150) if prog else none
    required = src.pick('required', [None, 'true', 'false', 'yes', '1', 'maybe']) if prog else None
    wait_exit = src.pick('wait_exit', [None, 'true', 'off', 'perhaps']) if prog else None
    rfs = src.pick('rfs', [None, 'RESTART_PROCESS', 'BOGUS', 'restart_process']) if prog else None
    a_start, va_start = none if prog else _text(src, 'a_start', numbers, -3, 5)
    a_stop, va_stop = none if prog else _text(src, 'a_stop', numbers, -3, 5)
    dist = None if prog else src.pick('distribution', [None, 'SINGLE_NODE', 'EVERYWHERE'])
    doc = ('<root><application name="app">' + _elt('start_sequence', a_start) + _elt('stop_sequence', a_stop)
           + _elt('distribution', dist) + '<programs><program name="prog">' + _elt('start_sequence', p_start)
           + _elt('stop_sequence', p_stop) + _elt('expected_loading', p_load) + _elt('required', required)
           + _elt('wait_exit', wait_exit) + _elt('running_failure_strategy', rfs)
           + '</program></programs></application></root>')
    try:
        parser = _parser(core, {'rules.xml': doc}, numbers)
        prules = ProcessRules(core)
        parser.load_program_rules('app:prog', prules)
        arules = ApplicationRules(core)
        parser.load_application_rules('app', arules)
    finally:
        numbers.remove(SP)

    def valid(v, lo=0, hi=None):
        if v is None:
            return False
        return (v >= lo) if hi is None else ((v >= lo) & (v <= hi))
    # --- program
    ok_start = valid(v_start)
    exp_start = v_start if ok_start else 0
    src.check('start-sequence-in-domain-or-default', prules.start_sequence == exp_start, sig='p.start_sequence')
    ok_stop = valid(v_stop)
    exp_stop = v_stop if ok_stop else exp_start          # stop_sequence defaults to start_sequence
    src.check('stop-sequence-defaults-to-start-sequence', prules.stop_sequence == exp_stop, sig='p.stop_sequence')
    ok_load = valid(v_load, 0, 100)
    src.check('expected-loading-in-0-100-or-default', prules.expected_load == (v_load if ok_load else 0),
              sig='p.expected_loading')
    truth = {'true': True, 'yes': True, '1': True, 'false': False, 'off': False}
    exp_required = truth.get(required, False)
    if exp_required and not (exp_start > 0):
        exp_required = False                              # required without a start_sequence is dropped
    src.check('required-needs-a-start-sequence', bool(prules.required) == exp_required, sig='p.required')
    src.check('non-boolean-leaves-default', bool(prules.wait_exit) == truth.get(wait_exit, False), sig='p.wait_exit')
    exp_rfs = rfs if rfs in ('RESTART_PROCESS', 'STOP_APPLICATION') else 'CONTINUE'
    src.check('unknown-enumeration-leaves-default', prules.running_failure_strategy.name == exp_rfs, sig='p.rfs')
    # --- application
    ok_a = valid(va_start)
    exp_a = va_start if ok_a else 0
    src.check('start-sequence-in-domain-or-default', arules.start_sequence == exp_a, sig='a.start_sequence')
    src.check('stop-sequence-defaults-to-start-sequence', arules.stop_sequence == (va_stop if valid(va_stop) else exp_a),
              sig='a.stop_sequence')
    src.check('unknown-enumeration-leaves-default', arules.distribution.name == ('SINGLE_NODE' if dist ==
                                                                                 'SINGLE_NODE' else 'ALL_INSTANCES'),
              sig='a.distribution')
    src.check('application-with-an-element-is-managed', arules.managed is True, sig='a.managed')
    src.check('no-internal-error', not core.logger.tracebacks())
    src.reach('loaded')


APP_PATTERNS = ['app', 'appdb', 'app.*01', r'db\d+', 'zzz', 'a']
PRG_PATTERNS = ['prog', 'prog_\\d', 'g_0', 'nothing']
# thorough tier: more names, captures that start at different offsets, anchors, alternations, permuted documents
APP_PATTERNS_T = APP_PATTERNS + ['^app', r'\d\d$', 'db|app', 'pdb0', 'web_', 'server']
PRG_PATTERNS_T = PRG_PATTERNS + ['^prog_', r'_\d+$', 'rog|og_01', 'worker_', '^zeta']
APP_NAMES_T = ['appdb01', 'web_server', 'a']
PRG_NAMES_T = ['prog_01', 'zeta_worker_01']


@rigged
def precedence(src, wide=False):
    """H18b: an exact name beats any pattern; among patterns the longest match wins (real get_application_element /
    get_program_element / get_best_pattern, real re)"""
    import supvisors.sparser as SP
    core = Core(1, 0)
    numbers = _Numbers()
    if wide:
        app_name = src.pick('application_name', APP_NAMES_T)
        prg_name = src.pick('program_name', PRG_NAMES_T)
        apool, ppool = APP_PATTERNS_T, PRG_PATTERNS_T
        # ordered selections: the order of the elements in the document must not matter
        pats = src.pick('application_patterns', [c for k in (0, 1, 2, 3) for c in itertools.permutations(apool, k)])
        ppats = src.pick('program_patterns', [c for k in (0, 1, 2) for c in itertools.permutations(ppool, k)])
    else:
        app_name, prg_name = 'appdb01', 'prog_01'
        pats = src.pick('application_patterns', [c for k in (0, 1, 2, 3)
                                                 for c in itertools.combinations(APP_PATTERNS, k)])
        ppats = src.pick('program_patterns', [c for k in (0, 1, 2) for c in itertools.combinations(PRG_PATTERNS, k)])
    exact_app = src.pick_flag('exact_application')
    exact_prg = src.pick_flag('exact_program')
    src.assume(exact_app or pats)

    def programs(marker):
        out = '<programs>'
        if exact_prg:
            out += f'<program name="{prg_name}"><expected_loading>{marker + 1}</expected_loading></program>'
        for j, pp in enumerate(ppats):
            out += f'<program pattern="{pp}"><expected_loading>{marker + 2 + j}</expected_loading></program>'
        return out + '</programs>'
    doc = '<root>'
    markers = {}
    if exact_app:
        markers['='] = 10
        doc += f'<application name="{app_name}"><start_sequence>10</start_sequence>{programs(10)}</application>'
    for j, pat in enumerate(pats):
        m = 20 + 10 * j
        markers[pat] = m
        doc += f'<application pattern="{pat}"><start_sequence>{m}</start_sequence>{programs(m)}</application>'
    doc += '</root>'
    try:
        parser = _parser(core, {'rules.xml': doc}, numbers)
        app_elt = parser.get_application_element(app_name)
        prg_elt, is_pattern = parser.get_program_element(f'{app_name}:{prg_name}')
    finally:
        numbers.remove(SP)

    def best(name, patterns):
        lens = {p: len(re.search(f'({p})', name).group()) for p in patterns if re.search(f'({p})', name)}
        if not lens:
            return []
        top = max(lens.values())
        return [p for p, n in lens.items() if n == top]
    if exact_app:
        allowed = [10]
    else:
        allowed = [markers[p] for p in best(app_name, pats)]
    got = int(app_elt.findtext('start_sequence')) if app_elt is not None else None
    src.check('application-exact-name-then-longest-match', (got in allowed) if allowed else got is None,
              sig='application', got=got, allowed=allowed, patterns=pats)
    if got is not None:
        base = got
        if exact_prg:
            pallowed = [base + 1]
        else:
            pallowed = [base + 2 + ppats.index(p) for p in best(prg_name, ppats)]
        pgot = int(prg_elt.findtext('expected_loading')) if prg_elt is not None else None
        src.check('program-exact-name-then-longest-match', (pgot in pallowed) if pallowed else pgot is None,
                  sig='program', got=pgot, allowed=pallowed, patterns=ppats)
        src.check('pattern-flag', is_pattern == (prg_elt is not None and not exact_prg), sig='is_pattern')
    src.reach('resolved')


@rigged
def models(src):
    """H18c: model references (chains, self references, cycles) terminate, are followed to depth 3 at most, and the
    values set on the element supersede the referenced ones"""
    import supvisors.sparser as SP
    from supvisors.process import ProcessRules
    core = Core(1, 0)
    numbers = _Numbers()
    names = ['m1', 'm2', 'm3']
    refs, sets = {}, {}
    for who in ['prog'] + names:
        refs[who] = src.pick(f'{who}_ref', [None] + names + ['ghost'])
        sets[who] = src.pick_flag(f'{who}_sets_load')
    # the values are solver variables inside the documented domain (also its bounds 0 and 100: a value equal to the
    # default still supersedes a referenced one)
    load, text = {}, {}
    for who in ['prog'] + names:
        load[who] = src.int(f'{who}_load', 0, 100)
        text[who] = f'@{who}_load@'
        numbers.values[text[who]] = load[who]
    doc = '<root>'
    for m in names:
        doc += (f'<model name="{m}">' + _elt('reference', refs[m])
                + (_elt('expected_loading', text[m]) if sets[m] else '') + '</model>')
    doc += ('<application name="app"><programs><program name="prog">' + _elt('reference', refs['prog'])
            + (_elt('expected_loading', text['prog']) if sets['prog'] else '') + '</program></programs></application></root>')
    try:
        parser = _parser(core, {'rules.xml': doc}, numbers)
        rules = ProcessRules(core)
        parser.load_program_rules('app:prog', rules)          # must terminate
    finally:
        numbers.remove(SP)

    def resolve(limit):
        """value with references followed through at most `limit` elements (the program included)"""
        chain, cur = [], 'prog'
        while cur is not None and cur in load and len(chain) < limit:
            chain.append(cur)
            cur = refs[cur]
        for who in chain:                   # the nearest element that sets the value wins
            if sets[who]:
                return load[who]
        return 0
    from symx import sor
    a3, a4 = resolve(3), resolve(4)           # "depth 3": three elements, or the program plus three models
    src.check('references-followed-to-depth-3-own-values-first',
              sor(rules.expected_load == a3, rules.expected_load == a4), sig='model', refs=refs, sets=sets)
    src.check('no-internal-error', not core.logger.tracebacks())
    src.reach('resolved')


@rigged
def identifiers(src):
    """H18d: aliases expand in order, duplicates are removed, '*' absorbs everything, '#' / '@' are separated from the
    identifiers and only kept for patterns"""
    import supvisors.sparser as SP
    from supvisors.process import ProcessRules
    core = Core(3, 0)
    numbers = _Numbers()
    tokens = ['10.0.0.1', '10.0.0.2', 'servers', 'consoles', '*', '#', '@', '']
    k = src.pick_int('length', 1, 3)
    chosen = [src.pick(f'token{i}', tokens) for i in range(k)]
    # a name listed twice is outside the claim (only the first occurrence of an alias is expanded)
    src.assume(len(set(chosen)) == len(chosen))
    use_pattern = src.pick_flag('pattern_element')
    attr = 'pattern="pro"' if use_pattern else 'name="prog"'
    doc = ('<root><alias name="servers">10.0.0.1,10.0.0.3</alias><alias name="consoles">10.0.0.2</alias>'
           f'<application name="app"><programs><program {attr}><identifiers>{",".join(chosen)}</identifiers>'
           '</program></programs></application></root>')
    try:
        parser = _parser(core, {'rules.xml': doc}, numbers)
        rules = ProcessRules(core)
        parser.load_program_rules('app:prog', rules)
    finally:
        numbers.remove(SP)
    expanded = []
    for t in chosen:
        expanded += {'servers': ['10.0.0.1', '10.0.0.3'], 'consoles': ['10.0.0.2']}.get(t, [t])
    expanded = [t for t in dict.fromkeys(expanded) if t]
    has_at, has_hash = '@' in expanded, '#' in expanded
    plain = [t for t in expanded if t not in ('@', '#')]
    if '*' in plain or ((has_at or has_hash) and not plain):
        plain = ['*']
    if not expanded:
        exp_ids, exp_at, exp_hash = ['*'], [], []
    elif not use_pattern and (has_at or has_hash):
        exp_ids, exp_at, exp_hash = ['*'], [], []            # signs are only meaningful for patterns
    elif has_at:
        exp_ids, exp_at, exp_hash = [], plain, []            # '@' wins over '#'
    elif has_hash:
        exp_ids, exp_at, exp_hash = [], [], plain
    else:
        exp_ids, exp_at, exp_hash = plain, [], []
    src.check('identifiers', rules.identifiers == exp_ids, sig='identifiers', got=rules.identifiers, expected=exp_ids,
              text=chosen)
    src.check('at-identifiers', rules.at_identifiers == exp_at, sig='at', got=rules.at_identifiers, expected=exp_at,
              text=chosen)
    src.check('hash-identifiers', rules.hash_identifiers == exp_hash, sig='hash', got=rules.hash_identifiers,
              expected=exp_hash, text=chosen)
    src.reach('loaded')


@rigged
def groups(src):
    """H18d': '#' and '@' spread a homogeneous group over the instances"""
    from supvisors.application import HomogeneousGroup
    from supvisors.process import ProcessRules, ProcessStatus
    core = Core(3, 0)
    ids = core.ids
    sign = src.pick('sign', ['@', '#'])
    nprocs = src.pick_int('numprocs', 1, 4)
    ref = src.pick('identifiers', [('*',)] + [c for k in (1, 2, 3) for c in itertools.permutations(range(3), k)])
    ref_ids = ['*'] if ref == ('*',) else [ids[i] for i in ref]
    universe = ids if ref == ('*',) else ref_ids
    group = HomogeneousGroup('prog', core)
    procs = []
    for k in range(nprocs):
        rules = ProcessRules(core)
        rules.identifiers = []
        if sign == '@':
            rules.at_identifiers = list(ref_ids)
        else:
            rules.hash_identifiers = list(ref_ids)
        p = ProcessStatus('app', f'prog_{k}', rules, core)
        p.process_index = k
        group.add_process(p)
        procs.append(p)
    group.resolve_rules()
    assigned = [p.rules.identifiers for p in procs]
    if sign == '@':
        for k, p in enumerate(procs):
            if k < len(universe):
                src.check('at-assigns-instances-in-order', assigned[k] == [universe[k]], sig='@', k=k,
                          got=assigned[k], expected=universe[k])
            else:
                src.check('at-leaves-extra-processes-unassigned', assigned[k] == [], sig='@', k=k, got=assigned[k])
    else:
        counts = {i: sum(1 for a in assigned if a == [i]) for i in universe}
        src.check('hash-assigns-every-process', all(len(a) == 1 and a[0] in universe for a in assigned), sig='#',
                  got=assigned)
        src.check('hash-balances', max(counts.values()) - min(counts.values()) <= 1, sig='#', counts=counts)
    src.reach('resolved')


@rigged
def groups_end_to_end(src):
    """H18h: the same through the real chain - rules document -> Parser -> Context.setdefault_process -> the planning of
    the application by the real Starter (ApplicationStatus.resolve_rules) - for a homogeneous group that is, or is not,
    part of the start sequence"""
    from rig.cluster import memory_parser
    from supervisor.states import ProcessStates as PS
    core = Core(3, 0)
    ids = core.ids
    sign = src.pick('sign', ['@', '#'])
    nprocs = src.pick_int('numprocs', 1, 4)
    ref = src.pick('identifiers', [('*',)] + [c for k in (1, 2, 3) for c in itertools.permutations(range(3), k)])
    ref_ids = ['*'] if ref == ('*',) else [ids[i] for i in ref]
    universe = ids if ref == ('*',) else ref_ids
    seq = src.pick('group_start_sequence', [0, 1, 2])
    doc = ('<root><application name="app"><start_sequence>1</start_sequence><programs>'
           '<program name="main"><start_sequence>1</start_sequence></program>'
           f'<program pattern="prog_"><identifiers>{sign},{",".join(ref_ids)}</identifiers>'
           f'<start_sequence>{seq}</start_sequence></program></programs></application></root>')
    core.parser = memory_parser(core, doc)
    for i in ids:
        core.identify(i)
        from supvisors.ttypes import SupvisorsInstanceStates as S
        core.set_instance_state(i, S.RUNNING)
        core.add_process(i, 'app', 'main', PS.STOPPED)
        for k in range(nprocs):
            core.add_process(i, 'app', f'prog_{k}', PS.STOPPED, program_name='prog', process_index=k)
    app = core.context.applications['app']
    core.starter.store_application(app)
    procs = [app.processes[f'prog_{k}'] for k in range(nprocs)]
    assigned = [p.rules.identifiers for p in procs]
    tag = f'{sign}:sequence={seq}'
    if sign == '@':
        for k, p in enumerate(procs):
            if k < len(universe):
                src.check('at-assigns-instances-in-order', assigned[k] == [universe[k]], sig=tag, k=k,
                          got=assigned[k], expected=universe[k])
            else:
                src.check('at-leaves-extra-processes-unassigned', assigned[k] == [], sig=tag, k=k, got=assigned[k])
    else:
        counts = {i: sum(1 for a in assigned if a == [i]) for i in universe}
        src.check('hash-assigns-every-process', all(len(a) == 1 and a[0] in universe for a in assigned), sig=tag,
                  got=assigned)
        src.check('hash-balances', max(counts.values()) - min(counts.values()) <= 1, sig=tag, counts=counts)
    src.check('no-internal-error', not core.logger.tracebacks(), log=core.logger.tracebacks()[:1])
    src.reach('resolved')


@rigged
def strategy_precedence(src):
    """H18i: the starting_strategy of an application: the value set on its element (whatever it is, also the one that
    happens to be the class default) supersedes the [supvisors] starting_strategy option, which applies otherwise -
    through the real Parser and Context.setdefault_application"""
    from rig.cluster import memory_parser
    from supervisor.states import ProcessStates as PS
    from supvisors.ttypes import StartingStrategies
    names = [x.name for x in StartingStrategies]
    option = src.pick('option_starting_strategy', names)
    element = src.pick('element_starting_strategy', [None, 'BOGUS'] + names)
    core = Core(2, 0)
    core.options.starting_strategy = StartingStrategies[option]
    doc = ('<root><application name="app">' + _elt('starting_strategy', element)
           + '<programs><program name="p"><start_sequence>1</start_sequence></program></programs></application></root>')
    core.parser = memory_parser(core, doc)
    for i in core.ids:
        core.identify(i)
    core.add_process(core.ids[0], 'app', 'p', PS.STOPPED)
    got = core.context.applications['app'].rules.starting_strategy.name
    expected = element if element in names else option
    src.check('element-value-supersedes-the-option', got == expected, sig=f'element={element}', got=got,
              expected=expected, option=option)
    src.reach('resolved')


@rigged
def options(src):
    """H18e: every [supvisors] option outside its documented range falls back to its default"""
    import supvisors.options as OPT
    from supvisors.ttypes import SynchronizationOptions as SO, SupvisorsFailureStrategies as SFS
    numbers = _Numbers()
    numbers.install(OPT)
    # check_options removes items from the class-level default list in place: restore it so that a path does not
    # inherit what a previous path removed (one SupvisorsOptions instance per process in production)
    OPT.SupvisorsOptions.SYNCHRO_DEFAULT_OPTIONS = [SO.STRICT, SO.TIMEOUT, SO.CORE]
    INT_OPTS = {'inactivity_ticks': (2, 720, 2), 'synchro_timeout': (15, 1200, 15), 'stats_histo': (10, 1500, 200),
                'event_port': (1, 65535, 0), 'multicast_ttl': (0, 255, 1)}
    attr = {'inactivity_ticks': 'inactivity_ticks', 'synchro_timeout': 'synchro_timeout', 'stats_histo': 'stats_histo',
            'event_port': 'event_port', 'multicast_ttl': 'multicast_ttl'}
    cfg, expect = {}, {}
    which = src.pick('option', list(INT_OPTS) + ['stats_collecting_period', 'stats_periods', 'synchro'])
    try:
        if which in INT_OPTS:
            lo, hi, default = INT_OPTS[which]
            kind = src.pick('kind', ['number', 'abc', '', '12.5'])
            if kind == 'number':
                v = src.int('value', -10, 70000)
                numbers.values['@value@'] = v
                cfg[which] = '@value@'
                ok = (v >= lo) & (v <= hi)
            else:
                cfg[which] = kind
                v, ok = None, False
            opts = OPT.SupvisorsOptions(DummySupervisord, RecLogger(), **cfg)
            got = getattr(opts, attr[which])
            if ok:
                src.check('in-range-value-kept', got == v, sig=which)
            else:
                src.check('out-of-range-value-falls-back-to-default', got == default, sig=which, got=got)
        elif which == 'stats_collecting_period':
            kind = src.pick('kind', ['number', 'nan', 'inf', '-inf', 'abc', ''])
            if kind == 'number':
                v = src.real('value', -10, 5000)
                numbers.values['@value@'] = v
                cfg[which] = '@value@'
                ok = (v >= 1) & (v <= 3600)
            else:
                cfg[which] = kind
                v, ok = None, False
            opts = OPT.SupvisorsOptions(DummySupervisord, RecLogger(), **cfg)
            got = opts.collecting_period
            if ok:
                src.check('in-range-value-kept', got == v, sig=which)
            else:
                src.check('out-of-range-value-falls-back-to-default', got == 5 and not (isinstance(got, float) and
                                                                                       math.isnan(got)),
                          sig=f'{which}:{kind}', got=repr(got))
        elif which == 'stats_periods':
            kinds = [src.pick(f'kind{i}', ['number', 'nan', 'abc', 'absent']) for i in range(2)]
            texts, vals = [], []
            for i, kind in enumerate(kinds):
                if kind == 'number':
                    v = src.real(f'value{i}', -10, 5000)
                    numbers.values[f'@value{i}@'] = v
                    texts.append(f'@value{i}@')
                    vals.append(v)
                elif kind != 'absent':
                    texts.append(kind)
                    vals.append(None)
            src.assume(len(texts) > 0)
            cfg[which] = ','.join(texts)
            opts = OPT.SupvisorsOptions(DummySupervisord, RecLogger(), **cfg)
            got = opts.stats_periods
            all_ok = all(v is not None and bool((v >= 1) & (v <= 3600)) for v in vals)
            if all_ok:
                src.check('in-range-periods-kept-sorted', sorted(got) == list(got) and len(got) == len(vals)
                          and all(any(g == v for v in vals) for g in got), sig=which)
            else:
                src.check('invalid-periods-fall-back-to-default', list(got) == [10], sig=f'{which}:{"+".join(kinds)}',
                          got=repr(got))
        else:
            sync = src.pick('synchro_options', ['LIST', 'CORE', 'STRICT', 'TIMEOUT', 'USER', 'CORE,STRICT', 'CORE,LIST',
                                                'TIMEOUT,LIST', 'BOGUS', ''])
            core_ids = src.pick('core_identifiers', [None, '10.0.0.1', ''])
            slist = src.pick('supvisors_list', [None, '10.0.0.1,10.0.0.2'])
            failure = src.pick('failure', [None, 'RESYNC', 'SHUTDOWN', 'CONTINUE'])
            cfg['synchro_options'] = sync
            if core_ids is not None:
                cfg['core_identifiers'] = core_ids
            if slist is not None:
                cfg['supvisors_list'] = slist
            if failure is not None:
                cfg['supvisors_failure_strategy'] = failure
            if sync == 'BOGUS':
                want = [SO.STRICT, SO.TIMEOUT, SO.CORE]        # documented default
            else:
                want = [SO[x] for x in sync.split(',') if x]
            if SO.CORE in want and not core_ids:
                want.remove(SO.CORE)
            if SO.STRICT in want and not slist:
                want.remove(SO.STRICT)
            try:
                opts = OPT.SupvisorsOptions(DummySupervisord, RecLogger(), **cfg)
                refused = False
            except ValueError:
                refused = True
            src.check('only-an-empty-result-is-refused', refused == (not want), sig='synchro:refused', want=[x.name for x
                                                                                                           in want])
            if not refused:
                src.check('core-strict-dropped-when-lists-empty', list(opts.synchro_options) == want, sig='synchro',
                          got=[x.name for x in opts.synchro_options], want=[x.name for x in want])
                exp_failure = SFS.CONTINUE if SO.TIMEOUT in want else (SFS[failure] if failure else SFS.CONTINUE)
                src.check('timeout-forces-continue', opts.supvisors_failure_strategy == exp_failure, sig='failure',
                          got=opts.supvisors_failure_strategy.name)
    finally:
        numbers.remove(OPT)
    src.reach('resolved')


@rigged
def shipped_files(src):
    """H18f: the rules files shipped with the test suite go through the real parse (lxml + XSD when available) and
    every application / program of them resolves without error (concrete validation vectors)"""
    import glob
    import os
    import supvisors.sparser as SP
    from supvisors.process import ProcessRules
    from supvisors.application import ApplicationRules
    from rig.stubs import REPO
    files = sorted(glob.glob(os.path.join(REPO, 'supvisors', 'tests', 'etc', '*.xml'))) + \
        sorted(glob.glob(os.path.join(REPO, 'supvisors', 'test', 'etc', '*.xml')))
    core = Core(3, 0)
    loaded = 0
    for f in files:
        try:
            core.options.rules_files = [f]
            parser = SP.Parser(core)
        except Exception:
            continue            # not a rules file, or refused by the XSD
        loaded += 1
        for root in parser.roots:
            for app in root.findall('./application'):
                name = app.get('name') or 'sample_' + re.sub(r'\W', '', app.get('pattern') or '')
                parser.load_application_rules(name, ApplicationRules(core))
                for prg in app.findall('./programs/program'):
                    pname = prg.get('name') or 'prog_' + re.sub(r'\W', '', prg.get('pattern') or '')
                    r = ProcessRules(core)
                    parser.load_program_rules(f'{name}:{pname}', r)
                    src.check('shipped-rules-in-domain', r.start_sequence >= 0 and r.stop_sequence >= 0
                              and 0 <= r.expected_load <= 100, sig='shipped', file=os.path.basename(f))
    src.check('some-shipped-file-loaded', loaded > 0, sig='shipped', files=[os.path.basename(f) for f in files])
    src.reach('loaded')


HARNESSES = [
    Harness('H18a', domains, quick={'level': 'program'}, thorough={'level': 'program'}, reach=('loaded',),
            timeout=(150, 600), doc='program value domains / defaults / dependencies with symbolic integers'),
    Harness('H18a-app', domains, quick={'level': 'application'}, thorough={'level': 'application'},
            reach=('loaded',), timeout=(60, 300), doc='application value domains / defaults'),
    Harness('H18b', precedence, quick={}, thorough={}, reach=('resolved',), timeout=(100, 300),
            doc='exact name vs patterns, longest match'),
    Harness('H18b-wide', precedence, quick=None, thorough={'wide': True}, reach=('resolved',), timeout=(0, 900),
            doc='3 x 2 names, ordered selections of <=3 of 12 application and <=2 of 9 program patterns (anchors, '
                'alternations, captures at different offsets)'),
    Harness('H18c', models, quick={}, thorough={}, reach=('resolved',), timeout=(100, 300),
            doc='model reference graphs incl. cycles'),
    Harness('H18d', identifiers, quick={}, thorough={}, reach=('loaded',), timeout=(100, 300),
            doc='aliases, duplicates, wildcard and sign identifiers'),
    Harness('H18g', groups, quick={}, thorough={}, reach=('resolved',), timeout=(60, 120),
            doc='# and @ over homogeneous groups'),
    Harness('H18h', groups_end_to_end, quick={}, thorough={}, reach=('resolved',), timeout=(60, 120),
            doc='# and @ through rules document -> Parser -> Context -> Starter planning, group in or out of the sequence'),
    Harness('H18i', strategy_precedence, quick={}, thorough={}, reach=('resolved',), timeout=(30, 60),
            doc='application starting_strategy: element value vs [supvisors] option default, via Parser and Context'),
    Harness('H18e', options, quick={}, thorough={}, reach=('resolved',), timeout=(100, 300),
            doc='[supvisors] options: ranges with symbolic values, NaN / inf, synchro_options consistency'),
    Harness('H18f', shipped_files, quick={}, thorough={}, reach=('loaded',), timeout=(30, 60),
            doc='shipped rules files through the real parse (concrete vectors)'),
]
BOUNDS = {'quick': {'models': 3, 'application_patterns': '<=3 of 6', 'program_patterns': '<=2 of 4',
                    'identifier_tokens': '<=3 of 8', 'numprocs': '<=4', 'instances': 3,
                    'numeric_values': 'symbolic integers / reals'}}
OUTSIDE = ['regex semantics on strings other than the listed patterns (real re on concrete strings)',
           'lxml / XSD validation itself (C code; only used on the shipped files)', 'alias expansion beyond 2 aliases',
           'a name listed twice in one identifiers element',
           'software_icon / rules_files / multicast options (file system and network lookups)']
ASSUMPTIONS = ['int() / float() of configuration text are stubbed inside supvisors.sparser / supvisors.options: a token '
               'converts to a solver variable of the documented type, other text goes to the real conversion',
               'Parser.parse returns the ElementTree of an in-memory document (the branch taken without lxml)',
               'model references: "depth 3" accepted as three elements or as the program plus three models']
