"""Fault / delay schedules over rig.cluster shared by C01 (convergence), C08 (recovery), C16 (no internal error)."""
from rig.cluster import Cluster
from supervisor.states import ProcessStates as PS

CONFIGS = {
    'LIST+TIMEOUT': {'synchro_options': 'LIST,TIMEOUT', 'synchro_timeout': '15'},
    'TIMEOUT': {'synchro_options': 'TIMEOUT', 'synchro_timeout': '15'},
    'LIST': {'synchro_options': 'LIST', 'synchro_timeout': '15'},
    'CORE': {'synchro_options': 'CORE,TIMEOUT', 'synchro_timeout': '15', 'core_identifiers': '10.0.0.2'},
}


def fault_kinds(n, process=True):
    kinds = []
    for i in range(n):
        kinds += [('crash', i, None), ('restart', i, None)]
    for i in range(n):
        for j in range(i + 1, n):
            kinds += [('partition', i, j), ('heal', i, j)]
    if process:
        kinds += [('proc', i, w) for i in range(n) for w in ('start', 'crash')]
    return kinds


def apply(cl, kind, senders=None):
    what, a, b = kind
    if what == 'crash':
        cl.crash(a)
    elif what == 'restart':
        cl.restart(a)
        if senders is not None:
            watch_requests(cl.cores[a], senders)
    elif what == 'partition':
        cl.partition(a, b)
    elif what == 'heal':
        cl.heal(a, b)
    elif what == 'glitch':
        cl.glitch(a, b)
    elif what == 'stall':
        cl.stall(a, b)
    elif what == 'unstall':
        cl.unstall(a, b)
    elif what == 'proc':
        sd = cl.cores[a].supervisor_data
        if cl.net.alive[cl.cores[a].ident] and 'app:p1' in sd.table:
            st = sd.table['app:p1']['state']
            if b == 'start' and st not in (PS.STARTING, PS.RUNNING):
                sd.set_state('app:p1', PS.STARTING)
                sd.set_state('app:p1', PS.RUNNING)
            elif b == 'crash' and st in (PS.STARTING, PS.RUNNING):
                sd.set_state('app:p1', PS.EXITED, expected=False)


def watch_requests(core, senders):
    """record who emits automatic start / stop requests and whether it regards itself as the Master then"""
    handler = core.rpc_handler
    for name in ('send_start_process', 'send_stop_process'):
        real = getattr(handler, name)

        def rec(*a, _real=real, _name=name):
            senders.append((core.ident, _name, a[1] if len(a) > 1 else None, core.state_modes.is_master(),
                            core.fsm.state.name))
            return _real(*a)
        setattr(handler, name, rec)


def run_schedule(src, n=2, rounds=6, closing=10, faults=1, delays=0, configs=('LIST+TIMEOUT',), fences=(False,),
                 failures=('CONTINUE',), kinds=None, fault_from=2, plan_fn=None, rules=None, programs=None,
                 release_at=None, eager=(False,)):
    cfg_name = src.pick('config', list(configs))
    cfg = dict(CONFIGS[cfg_name])
    cfg['auto_fence'] = str(src.pick('auto_fence', list(fences)))
    cfg['supvisors_failure_strategy'] = src.pick('failure_strategy', list(failures))
    # (nothing is adjusted here: with TIMEOUT among the options the real SupvisorsOptions.check_options forces CONTINUE)
    programs = programs or {i: [('app', 'p1')] for i in range(n)}
    cl = Cluster(n, cfg, programs, rules=rules)
    if len(eager) > 1 or eager[0]:
        cl.net.eager = src.pick('proxy_thread_runs_at_once', list(eager))
    senders = []
    for c in cl.cores:
        watch_requests(c, senders)
    kinds = kinds or fault_kinds(n)
    if plan_fn:
        plan = plan_fn(src)
    else:
        plan = [(src.pick_int(f'fault{k}_round', fault_from, rounds - 1), src.pick_int(f'fault{k}_pos', 0, n - 1),
                 src.pick(f'fault{k}_kind', kinds)) for k in range(faults)]
    budget = [delays]
    counter = [0]

    current = [0]

    def hold(task):
        if release_at is not None and task[0] == 'supervisord' and current[0] < release_at:
            return True         # the supervisords are slow: what they were asked stays pending until that round
        if budget[0] <= 0 or counter[0] > 500:
            return False
        counter[0] += 1
        if src.pick_flag(f'hold{counter[0]}'):
            budget[0] -= 1
            return True
        return False
    traces = {c.ident: [c.fsm.state.name] for c in cl.cores}

    def note():
        for c in cl.live():
            t = traces.setdefault(c.ident, [c.fsm.state.name])
            if t[-1] != c.fsm.state.name:
                t.append(c.fsm.state.name)
    for r in range(rounds):
        current[0] = r
        for pos in range(n):
            for (fr, fp, kind) in plan:
                if fr == r and fp == pos:
                    apply(cl, kind, senders)
                    if kind[0] == 'restart':
                        traces[cl.cores[kind[1]].ident] = ['OFF']
            c = cl.cores[pos]
            if cl.net.alive[c.ident]:
                c.tick()
                cl.drain(hold if delays or release_at is not None else None)
                note()
    for r in range(closing):
        cl.round()
        note()
    return cl, cfg, plan, senders, traces


SPLIT_STARTS = (2, 3, 10)


def split_brain_plan(n, max_len, late=True):
    """plan_fn for run_schedule.  Optionally one instance joins late (down from round 0, started at round 5, so that
    the Master that is kept need not be the one the rule prefers).  Then one instance is separated from the others at
    round 2, 3 (cluster still starting) or 10 (cluster in OPERATION) for 0..max_len rounds (0 = until later in the
    same round, so that only the instances that tick in between can notice), in one of three ways: a partition (sends
    fail, the sender notices at once), or the proxy threads from / towards that instance stuck in a slow XML-RPC (what
    they carry queues up silently and is delivered, in order, at the end)."""
    def plan_fn(src):
        plan = []
        if late:
            who = src.pick('late_joiner', [None] + list(range(n)))
            if who is not None:
                plan.append((0, 0, ('crash', who, None)))
                plan.append((5, 0, ('restart', who, None)))
        cut = src.pick_int('cut_instance', 0, n - 1)
        mode = src.pick('separation', ['partition', 'stalled-from', 'stalled-towards', 'one-rpc-fails-from',
                                       'one-rpc-fails-towards'])
        glitch = mode.startswith('one-rpc')
        # (a single failing XML-RPC is also placed where the late joiner's handshakes take place)
        start = src.pick('partition_round', [5, 6, 10] if glitch else list(SPLIT_STARTS))
        pos = src.pick_int('partition_pos', 0, n - 1)
        length = src.pick_int('partition_length', 0, max_len)
        hpos = src.pick_int('heal_pos', 0, n - 1)
        if glitch:
            src.assume(length == 1)
            src.assume(hpos == 0)
        if length == 0:
            src.assume(hpos > pos)
        for other in range(n):
            if other == cut:
                continue
            if glitch:
                a, b = (cut, other) if mode.endswith('from') else (other, cut)
                plan.append((start, pos, ('glitch', a, b)))
            elif mode == 'partition':
                a, b = min(cut, other), max(cut, other)
                plan.append((start, pos, ('partition', a, b)))
                plan.append((start + length, hpos, ('heal', a, b)))
            else:
                a, b = (cut, other) if mode == 'stalled-from' else (other, cut)
                plan.append((start, pos, ('stall', a, b)))
                plan.append((start + length, hpos, ('unstall', a, b)))
        return plan
    return plan_fn


def separation_length(plan):
    if any(x[2][0] == 'glitch' for x in plan):
        return 'one-failing-rpc'
    begin = [x[0] for x in plan if x[2][0] in ('partition', 'stall')]
    end = [x[0] for x in plan if x[2][0] in ('heal', 'unstall')]
    return f"{[x[2][0] for x in plan if x[2][0] in ('partition', 'stall')][0]}-of-{end[0] - begin[0]}-rounds"


def distribution_schedule(src, n, closing, configs, fences, failures=('CONTINUE',)):
    """a real start sequence is pending (real rules file; the supervisords answer late) while two crashes / restarts
    happen: the Master, the target of the request or a bystander - also an instance that comes back and is CHECKED but
    not activated while the DISTRIBUTION lasts; the proxy threads may be scheduled as soon as a request is queued"""
    target = src.pick_int('target', 0, n - 1)
    rules = ('<root><application name="app"><start_sequence>1</start_sequence><programs><program name="p1">'
             f'<identifiers>10.0.0.{target + 1}:25000</identifiers><start_sequence>1</start_sequence>'
             '</program></programs></application></root>')
    release = src.pick('supervisords_answer_at_round', [4, 7])
    kinds = [(w, i, None) for i in range(n) for w in ('crash', 'restart')]

    def plan_fn(src):
        return [(src.pick_int('fault0_round', 3, 4), src.pick_int('fault0_pos', 0, n - 1),
                 src.pick('fault0_kind', kinds)),
                (src.pick_int('fault1_round', 4, 5), 0, src.pick('fault1_kind', kinds))]
    cl, cfg, plan, senders, traces = run_schedule(src, n=n, rounds=8, closing=closing, configs=configs,
                                                  fences=fences, failures=failures, plan_fn=plan_fn,
                                                  rules=rules, release_at=release, eager=(False, True))
    return cl, cfg, plan, senders, traces, 'distribution:' + '+'.join(k[0] for _, _, k in plan)


def groups(cl, skipped=None):
    """sets of live instances that can all reach one another and have not isolated one another.

    The statement speaks of groups, i.e. it presumes that "reaches and has not isolated" partitions the live instances.
    When it does not (A-B cut while C reaches both; A isolated B while C did not) the groups overlap and no instance
    can report the Master of both: such connected components are left out (and counted in `skipped`)."""
    live = cl.live()

    def linked(c, o):
        return (cl.net.reachable(c.ident, o.ident) and c.context.instances[o.ident].state.name != 'ISOLATED'
                and o.context.instances[c.ident].state.name != 'ISOLATED')
    comps, seen = [], set()
    for c in live:
        if c.ident in seen:
            continue
        comp, todo = [], [c]
        seen.add(c.ident)
        while todo:
            x = todo.pop()
            comp.append(x)
            for o in live:
                if o.ident not in seen and linked(x, o):
                    seen.add(o.ident)
                    todo.append(o)
        comp.sort(key=lambda x: x.ident)
        if all(linked(a, b) for a in comp for b in comp if a is not b):
            comps.append(comp)
        elif skipped is not None:
            skipped.append([x.ident for x in comp])
    return comps
