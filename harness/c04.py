"""C04 - start requests only go to eligible instances with spare load."""
from runner import Harness
from rig.stubs import rigged, CLOCK
from rig import adapter
from rig.core import Core
from spec import placement as P
from harness import placement as PL
from harness.c14 import choice
from supervisor.states import ProcessStates

PROPERTY = 'C04'


def _requests(core):
    return [(a[0], a[1]) for n, a in core.rpc_handler.out if n == 'send_start_process']


def _no_resource(core):
    """forced FATAL events published with the 'No resource available' reason"""
    out = []
    for n, a in core.rpc_handler.out:
        if n == 'send_process_state_event' and a[0].get('forced') and a[0].get('spawnerr') == 'No resource available':
            out.append(f"{a[0]['group']}:{a[0]['name']}")
    return out


@rigged
def start_apps(src, n=2, procs=2, apps=1, lean=True, dist=('ALL_INSTANCES',), auto=False, late=False):
    """H04b: real Starter/ApplicationStartJobs/ProcessStartCommand starting 1..2 applications; every request recorded
    at the rpc boundary must target an instance that is eligible *at that moment*, counting every start already
    requested (by any application) in the node load."""
    from supvisors.ttypes import StartingStrategies, DistributionRules
    core, sit, _ = PL.build_situation(src, n, lean=True, max_load=100)
    sit['pend'] = [0] * n          # pending loads come from the requests of this run only
    ids = core.ids
    strat = src.pick('strategy', PL.STRATS)
    targets = []
    for a in range(apps):
        group = f'app{a}'
        distribution = src.pick(f'dist{a}', list(dist))
        plist = []
        for k in range(procs if a == 0 else 1):
            s = dict(sit)
            proc = PL.add_target(src, core, s, group=group, name=f't{k}', prefix=f'a{a}p{k}_', lean=lean,
                                 rule=(distribution == 'ALL_INSTANCES'))
            adapter.set_rules(proc.rules, start_sequence=1, required=True)
            plist.append((proc, s))
        application = core.context.applications[group]
        adapter.set_rules(application.rules, managed=True, start_sequence=1,
                          distribution=DistributionRules[distribution], starting_strategy=StartingStrategies[strat])
        if distribution != 'ALL_INSTANCES':
            rc = src.pick(f'apprule{a}', [('*',), tuple(reversed(range(n)))] if lean else PL.rule_choices(n))
            permitted = list(range(n)) if rc == ('*',) else list(rc)
            adapter.set_rules(application.rules, identifiers=['*'] if rc == ('*',) else [ids[i] for i in rc])
            for proc, s in plist:
                s['permitted'] = permitted
            # the identifiers rule of a program of a non-distributed application is replaced by the application's: a
            # restrictive one must change nothing
            if lean and src.pick_flag(f'program_rule_to_be_ignored{a}'):
                adapter.set_rules(plist[0][0].rules, identifiers=[ids[n - 1]])
        targets.append((application, distribution, plist))
    late_proc = None
    if late:
        # a program outside the start sequence, with its own (restrictive) identifiers rule, started by a separate
        # request while the start of its non-distributed application is in progress (ApplicationStartJobs.on_command_added)
        for ident in ids:
            late_proc = core.add_process(ident, 'app0', 'late', ProcessStates.STOPPED)
        adapter.set_rules(late_proc.rules, start_sequence=0, expected_load=0, identifiers=[ids[n - 1]])
    core.finalize_rules()
    # one of the processes may already be running somewhere / already being started: it must not be requested again
    already = src.pick('already', ['no', 'running'])
    if already == 'running':
        proc, s = targets[0][2][0]
        holder = next((i for i in range(n) if s['known'][i]), None)
        src.assume(holder is not None)
        src.assume(s['running'][holder])
        core.process_event(ids[holder], proc.application_name, proc.process_name, ProcessStates.RUNNING)
        sit['load'] = list(sit['load'])
        sit['load'][holder] = sit['load'][holder] + s['L']
        for _, _, plist in targets:
            for _, s2 in plist:
                s2['load'] = sit['load']
    stopped_at_call = {t[0].application_name: t[0].stopped() for t in targets}
    if auto or apps > 1:
        core.starter.start_applications()
    else:
        core.starter.start_application(StartingStrategies[strat], targets[0][0])
    if late_proc is not None and core.starter.in_progress():
        core.starter.start_process(StartingStrategies[strat], late_proc)
        core.late_namespec = late_proc.namespec
        # where the command added to the job in progress has been planned (it is requested when its turn comes)
        core.late_targets = [c.identifier for job in core.starter.current_jobs.values()
                             for cmds in list(job.planned_jobs.values()) + [job.current_jobs]
                             for c in cmds if c.process is late_proc and c.identifier]
    reqs = _requests(core)
    nores = _no_resource(core)
    src.reach('requested' if reqs else 'nothing-requested')
    # --- oracle: replay the requests in order, accumulating what has been requested
    pend = [0] * n
    seen = set()
    for identifier, namespec in reqs:
        src.check('one-request-per-process', namespec not in seen, sig=namespec)
        seen.add(namespec)
        if namespec == getattr(core, 'late_namespec', None):
            continue            # judged by the C14 harness
        i = ids.index(identifier)
        group, name = namespec.split(':')
        application, distribution, plist = next(t for t in targets if t[0].application_name == group)
        proc, s = next((p, s) for p, s in plist if p.process_name == name)
        if already == 'running' and proc is targets[0][2][0][0]:
            src.check('running-process-not-requested', False, sig=namespec)
        s = dict(s, pend=list(pend))
        src.check('target-running', s['running'][i], sig=distribution)
        src.check('target-knows-and-enables', s['known'][i] and s['enabled'][i], sig=distribution)
        src.check('target-permitted', i in s['permitted'], sig=distribution)
        src.check('node-load-with-requests', P.node_load(s, i) + s['L'] <= 100, sig=distribution,
                  apps=apps)
        pend[i] = pend[i] + s['L']
    # what was not requested must be reported FATAL 'No resource available' (unless already running)
    for application, distribution, plist in targets:
        for proc, s in plist:
            if proc.namespec in seen:
                continue
            if already == 'running' and proc is targets[0][2][0][0]:
                continue
            if not stopped_at_call[application.application_name] and not (auto or apps > 1):
                continue        # a start request for an application that is not stopped is refused as a whole
            src.check('unrequested-is-reported', proc.namespec in nores, sig=distribution)
            if distribution == 'ALL_INSTANCES' and apps == 1 and procs == 1:
                s2 = dict(s, pend=[0] * n)
                elig = P.eligible(s2)
                src.check('nothing-sent-only-if-nobody-eligible', (0 not in elig) if strat == 'LOCAL' else not elig,
                          sig=strat)
    src.check('no-internal-error', not core.logger.tracebacks(), log=core.logger.tracebacks()[:1])
    src.obs('requests', reqs)
    src.obs('nores', sorted(nores))
    return core, targets, reqs


@rigged
def identify_twice(src, n=3):
    """H04c: the handshake may run any number of times for the same peer; the node map must list each instance once,
    otherwise Context.get_nodes_load counts its load several times"""
    core = Core(n, 0)
    ids = core.ids
    from supvisors.ttypes import SupvisorsInstanceStates as S
    reps = [src.pick_int(f'reps{i}', 1, 3) for i in range(n)]
    nodes = src.pick('nodes', PL.node_maps(n))
    for i, ident in enumerate(ids):
        for _ in range(reps[i]):
            core.identify(ident, nodes[i])
        core.set_instance_state(ident, S.RUNNING)
    loads = []
    for i, ident in enumerate(ids):
        l = src.int(f'load{i}', 0, 100)
        loads.append(l)
        p = core.add_process(ident, 'ballast', f'b{i}', ProcessStates.RUNNING, now=CLOCK[0].t, start=CLOCK[0].t)
        adapter.set_rules(p.rules, expected_load=l)
    node_load = core.context.get_nodes_load()
    from rig.core import machine_id
    for k in set(nodes):
        expected = sum(loads[i] for i in range(n) if nodes[i] == k)
        src.check('node-load-counts-each-instance-once', node_load.get(machine_id(k)) == expected,
                  sig='repeated-identification' if max(reps) > 1 else 'single')
    src.reach('done')
    src.obs('nodes', {k: sorted(v) for k, v in core.mapper.nodes.items()})


def _admission_gate():
    from harness import c13
    return c13.admission_gate


HARNESSES = [
    Harness('H04d', _admission_gate(), quick={}, thorough={}, reach=('admitted', 'not-admitted'), timeout=(30, 60),
            doc="enable / disable events are taken into account from a CHECKED or RUNNING sender: the 'has it enabled' knowledge is not stale when the instance becomes RUNNING (scenario shared with C13 H13d)"),
    Harness('H04a', choice, quick={'n': 2, 'mode': 'eligible'}, thorough={'n': 3, 'mode': 'eligible'},
            reach=('chosen', 'none'), timeout=(100, 1500),
            doc='real get_supvisors_instance: result is None or eligible; None iff nobody is eligible'),
    Harness('H04b-1proc', start_apps, quick={'n': 2, 'procs': 1, 'apps': 1, 'lean': False},
            thorough={'n': 3, 'procs': 1, 'apps': 1, 'lean': False},
            reach=('requested', 'nothing-requested'), timeout=(120, 1200),
            doc='real Starter.start_application, one process, all eligibility dimensions symbolic: a request goes '
                'out iff somebody is eligible, to an eligible instance; otherwise FATAL "No resource available"'),
    Harness('H04b-2procs', start_apps, quick={'n': 2, 'procs': 2, 'apps': 1, 'lean': True},
            thorough={'n': 3, 'procs': 2, 'apps': 1, 'lean': True},
            reach=('requested', 'nothing-requested'), timeout=(120, 1200),
            doc='two processes of one sequence: the second request accounts for the first one in the node load'),
    Harness('H04b-single-instance', start_apps, quick={'n': 2, 'procs': 2, 'apps': 1, 'lean': False,
                                                      'dist': ('SINGLE_INSTANCE',)}, thorough=None,
            reach=('requested', 'nothing-requested'), timeout=(90, 0),
            doc='SINGLE_INSTANCE application with every eligibility dimension of each program symbolic (known, '
                'enabled, running instance): the whole application goes to an instance that knows and enables all'),
    Harness('H04b-3procs', start_apps, quick={'n': 2, 'procs': 3, 'apps': 1, 'lean': True}, thorough={'n': 3, 'procs': 3, 'apps': 1, 'lean': True},
            reach=('requested', 'nothing-requested'), timeout=(90, 1200),
            doc='three processes of one sequence: the third request accounts for two pending starts, possibly on the '
                'same instance (the pending loads of one instance add up)'),
    Harness('H04b-2apps', start_apps, quick={'n': 2, 'procs': 1, 'apps': 2, 'lean': True},
            thorough={'n': 3, 'procs': 1, 'apps': 2, 'lean': True},
            reach=('requested', 'nothing-requested'), timeout=(120, 1200),
            doc='two applications of the same rank started by Starter.start_applications (concurrent starts)'),
    Harness('H04b-dist', start_apps, quick={'n': 2, 'procs': 2, 'apps': 1, 'lean': False,
                                           'dist': ('SINGLE_NODE',)},
            thorough={'n': 3, 'procs': 2, 'apps': 1, 'lean': False, 'dist': ('SINGLE_INSTANCE', 'SINGLE_NODE')},
            reach=('requested', 'nothing-requested'), timeout=(120, 1200),
            doc='eligibility of the targets under the SINGLE_INSTANCE / SINGLE_NODE distribution rules (program known '
                'or disabled on some instances of the node only)'),
    Harness('H04c', identify_twice, quick={'n': 3}, thorough={'n': 3}, reach=('done',), timeout=(60, 300),
            doc='repeated handshakes: node load counts each instance once'),
]
BOUNDS = {'quick': {'instances': 2, 'processes_per_application': 2, 'applications': '1 and 2 (same rank)',
                    'loads': 'symbolic in [0,100] / [0,150]', 'handshakes_per_peer': '1..3'},
          'thorough': {'instances': 3}}
OUTSIDE = ['more than 3 instances, more than 2 applications / 2 processes per application', 'stereotypes',
           'start_any_process', 'loads requested by a previous, still running Starter sequence of another rank']
ASSUMPTIONS = ['rpc_handler is a recorder: a request is what reaches send_start_process',
               'instance states, rules and loads are planted through rig/adapter.py']
