"""C20 - statistics histories stay bounded, aligned and sane."""
import math

from runner import Harness
from rig.stubs import rigged, RecLogger, CLOCK
from symx import sym_ite

PROPERTY = 'C20'
KEYS = ['a', 'b']


DTS = [0.0, 1.0, 7.5, 4000.0]
SHAPES = [
    {'net_io': (), 'disk_io': ('a',), 'disk_usage': ('a',)},
    {'net_io': ('a',), 'disk_io': ('a',), 'disk_usage': ('a',)},
    {'net_io': ('a', 'b'), 'disk_io': ('a', 'b'), 'disk_usage': ('a', 'b')},
    {'net_io': ('b',), 'disk_io': (), 'disk_usage': ('b',)},
    {'net_io': ('a',), 'disk_io': ('a',), 'disk_usage': ('a',), 'wrap': ('net_io', 'a', 0)},
    {'net_io': ('a', 'b'), 'disk_io': ('a',), 'disk_usage': ('a',), 'wrap': ('net_io', 'b', 1)},
    {'net_io': ('a',), 'disk_io': ('a',), 'disk_usage': ('a',), 'wrap': ('disk_io', 'a', 1)},
]


class _Opts:
    def __init__(self, periods, depth):
        self.stats_periods = periods
        self.stats_histo = depth
        self.stats_irix_mode = False


class _Sup:
    def __init__(self, periods, depth):
        self.options = _Opts(periods, depth)
        self.logger = RecLogger()


def _check_host(src, inst, depth, tag):
    n = len(inst.times)
    src.check('history-bounded', n <= depth, sig=f'{tag}:times', n=n)
    src.check('memory-aligned', len(inst.mem) == n, sig=f'{tag}:mem', n=n, mem=len(inst.mem))
    for core in inst.cpu:
        src.check('cpu-aligned', len(core) == n, sig=f'{tag}:cpu', n=n, cpu=len(core))
    for name, table in (('net_io', inst.net_io), ('disk_io', inst.disk_io), ('disk_usage', inst.disk_usage)):
        for key, (uptimes, series) in table.items():
            src.check('entity-history-bounded', len(uptimes) <= depth, sig=f'{tag}:{name}', key=key)
            for values in series:
                src.check('entity-series-aligned', len(values) == len(uptimes), sig=f'{tag}:{name}', key=key,
                          values=len(values), uptimes=len(uptimes))


@rigged
def host_stream(src, k=4):
    """H20a: a stream of k host samples with solver-chosen timestamps, period, depth, appearing / vanishing
    interfaces, disks and partitions, wrapping counters, pushed through the real HostStatisticsCompiler"""
    from supvisors.statscompiler import HostStatisticsCompiler
    period = src.real('period', 1, 3600, key=True)
    depth = src.int('depth', 1, 3)
    sup = _Sup([period], depth)
    comp = HostStatisticsCompiler(sup)
    ident = '10.0.0.1:25000'
    now = 1000.0
    last_point = None
    points = 0
    counters = {(kind, key): [1000, 1000] for kind in ('net_io', 'disk_io') for key in KEYS}
    for i in range(k):
        if i > 0:
            # concrete steps against a symbolic period: the rates stay concrete (no non-linear arithmetic), the
            # comparison with the period is decided by the solver
            now = now + src.pick(f'dt{i}', DTS)
        sample = {'now': now, 'cpu': [(10.0 * i, 20.0 * i), (5.0 * i, 10.0 * i), (5.0 * i, 10.0 * i)],
                  'mem': 10.0 + i, 'net_io': {}, 'disk_io': {}, 'disk_usage': {}}
        shape = src.pick(f'shape{i}', SHAPES)
        for kind in ('net_io', 'disk_io', 'disk_usage'):
            for key in shape[kind]:
                if kind == 'disk_usage':
                    sample[kind][key] = 50.0
                else:
                    # one of the two counters of an entity restarts from a small value, the other keeps growing
                    wrap = shape.get('wrap', (None, None, None))
                    cnt = counters[(kind, key)]
                    for d, step in ((0, 100), (1, 50)):
                        cnt[d] = 5 if wrap == (kind, key, d) else cnt[d] + step
                    sample[kind][key] = (cnt[0], cnt[1])
        results = comp.push_statistics(ident, sample)
        inst = comp.get_stats(ident, period)
        src.check('instance-created-on-first-sample', inst is not None, sig='new-instance')
        # a new point only when at least the period has elapsed since the previous one
        if last_point is None:
            expect = False
            last_point = now
        else:
            expect = (now - last_point >= period)
        produced = len(results) > 0
        src.check('point-iff-period-elapsed', produced == expect, sig='period', i=i)
        if produced:
            points += 1
            last_point = now
            src.reach('point')
        src.check('history-counts-the-points', len(inst.times) == sym_min(points, depth, src), sig='count',
                  points=points, n=len(inst.times))
        _check_host(src, inst, depth, 'host')
        for r in results:
            for v in r['cpu']:
                src.check('cpu-percentage-in-range', 0 <= v <= 100, sig='cpu', value=v)
            for name in ('net_io', 'disk_io'):
                for key, rates in r[name].items():
                    for v in rates:
                        src.check('io-rate-non-negative', v >= 0, sig=name)
    src.check('no-internal-error', not sup.logger.tracebacks())
    src.reach('streamed')
    src.obs('points', points)


@rigged
def io_kernel(src):
    """H20i: one call of the real io_statistics on solver-chosen 64-bit counters (any of the four may have wrapped or
    stalled), key sets that differ between the reference and the new sample, exact rational arithmetic (the Float64
    rounding of the same expressions is the subject of the fp queries)"""
    from supvisors.statscompiler import io_statistics
    top = 2 ** 64
    last_keys, ref_keys = src.pick('keys', [(('a',), ('a',)), (('a', 'b'), ('a',)), (('a',), ('a', 'b')),
                                            (('a',), ())])
    last = {k: (src.int(f'last_in_{k}', 0, top), src.int(f'last_out_{k}', 0, top)) for k in last_keys}
    ref = {k: (src.int(f'ref_in_{k}', 0, top), src.int(f'ref_out_{k}', 0, top)) for k in ref_keys}
    duration = src.pick('duration', [1.0, 7.5, 4000.0])
    rates = io_statistics(last, ref, duration)
    for key, values in rates.items():
        src.check('rate-only-for-known-entity', key in last and key in ref, sig='kernel:key', key=key)
        src.check('two-directions', len(values) == 2, sig='kernel:shape')
        for d, v in enumerate(values):
            src.reach('rate')
            src.check('io-rate-non-negative', v >= 0, sig=f'kernel:direction{d}', key=key)
            src.check('io-rate-is-the-counter-difference-per-second-in-kbits',
                      v * duration * 128 == last[key][d] - ref[key][d], sig=f'kernel:value{d}', key=key)
    src.reach('done')


def sym_min(a, b, src):
    return a if a <= b else b


@rigged
def process_stream(src, k=4):
    """H20p: a stream of k process samples: same pid, new pid (restart), pid 0 (stopped), two identifiers"""
    from supvisors.statscompiler import ProcStatisticsCompiler
    period = src.real('period', 1, 3600, key=True)
    depth = src.int('depth', 1, 3)
    opts = _Opts([period], depth)
    logger = RecLogger()
    comp = ProcStatisticsCompiler(opts, logger)
    now = 1000.0
    model = {}      # identifier -> (pid, last point time, points)
    for i in range(k):
        if i > 0:
            now = now + src.pick(f'dt{i}', DTS)
        ident = src.pick(f'identifier{i}', ['10.0.0.1:25000', '10.0.0.2:25000'])
        pid = src.pick(f'pid{i}', [0, 100, 200])
        sample = {'namespec': 'app:p', 'pid': pid, 'now': now, 'proc_work': 1.0 * i, 'proc_memory': 1.5,
                  'nb_cores': 2}
        results = comp.push_statistics(ident, sample)
        inst = comp.get_stats('app:p', ident, period)
        if pid == 0:
            model.pop(ident, None)
            src.reach('stopped')
            src.check('history-of-stopped-process-dropped', inst is None and not results, sig='dropped')
        else:
            cur = model.get(ident)
            if cur is None or cur[0] != pid:
                model[ident] = (pid, now, 0)
                expect = False
            else:
                expect = now - cur[1] >= period
                if expect:
                    model[ident] = (pid, now, cur[2] + 1)
            produced = len(results) > 0
            src.check('point-iff-period-elapsed', produced == expect, sig='period', i=i)
            src.check('history-exists-for-running-process', inst is not None, sig='exists')
            n = len(inst.times)
            src.check('history-bounded', n <= depth, sig='proc:times', n=n)
            src.check('series-aligned', len(inst.cpu) == n and len(inst.mem) == n, sig='proc:aligned')
            src.check('history-counts-the-points', n == sym_min(model[ident][2], depth, src), sig='proc:count',
                      n=n, points=model[ident][2])
            if produced:
                src.reach('point')
        if not model:
            src.check('holder-removed-when-nobody-runs-it', 'app:p' not in comp.holder_map, sig='holder')
    src.reach('streamed')


class _FakePsutil:
    """environment stub for psutil inside supvisors.statscollector: a process table owned by the harness; what a
    call returns is solver-chosen within psutil's contract (a live pid can be sampled or hit a transient OSError, a dead
    one raises NoSuchProcess)"""

    class NoSuchProcess(Exception):
        pass

    class AccessDenied(Exception):
        pass

    def __init__(self):
        self.alive = set()
        self.next_outcome = 'ok'
        outer = self

        class Process:
            def __init__(self, pid=None):
                if pid is not None and pid not in outer.alive:
                    raise outer.NoSuchProcess(pid)
                self.pid = pid if pid is not None else 1

            def as_dict(self, attrs=None):
                if self.pid not in outer.alive and self.pid != 1:
                    raise outer.NoSuchProcess(self.pid)
                if outer.next_outcome == 'oserror':
                    raise OSError('Too many open files')
                return {'cpu_times': (1.0, 2.0, 0.0, 0.0), 'memory_percent': 1.5}

            def children(self, recursive=True):
                return []
        self.Process = Process


class _Conn:
    def __init__(self):
        self.sent = []

    def send(self, x):
        self.sent.append(x)

    def poll(self, *a):
        return False


@rigged
def collector_stream(src, k=5, bystanders=True):
    """H20c: the real ProcessStatisticsCollector (process list, pid changes, transient psutil failures) feeding the real
    ProcStatisticsCompiler: once a process has stopped and the collector has been told (pid 0) or has noticed, no
    history of it remains"""
    import supvisors.statscollector as COL
    from supvisors.statscompiler import ProcStatisticsCompiler
    fake = _FakePsutil()
    saved = COL.psutil
    COL.psutil = fake
    try:
        period = 5.0
        conn = _Conn()
        collector = COL.ProcessStatisticsCollector.__new__(COL.ProcessStatisticsCollector)
        COL.StatisticsCollector.__init__(collector, conn, period, True)
        collector.processes = []
        collector.supervisor_process = {'last': 0, 'supervisor': fake.Process(), 'collector': fake.Process()}
        comp = ProcStatisticsCompiler(_Opts([period], 3), RecLogger())
        ident, ns = '10.0.0.1:25000', 'app:p'
        # other programs of the same Supervisor that run all along: what happens to 'p' must not disturb their
        # collection (a process that leaves the list would never get its pid-0 report: its history would stay for ever)
        others = {f'app:other{j}': 50 + j for j in range(src.pick_int('other_processes', 0, 2))} if bystanders else {}
        fake.alive = set(others.values())
        for other_ns, other_pid in others.items():
            collector.update_process_list(other_ns, other_pid)
        running = None          # pid of the live process
        told_stopped = True     # the collector knows (event) or has noticed (sampling) that nothing runs
        sampled = False

        def forward():
            while conn.sent:
                stats = conn.sent.pop(0)
                if isinstance(stats, dict) and stats.get('namespec') == ns:
                    comp.push_statistics(ident, dict(stats, nb_cores=2) if 'proc_work' in stats else stats)
        for i in range(k):
            choices = ['collect']
            if running is None:
                choices += ['start']
            else:
                choices += ['stop', 'die_silently', 'restart']
            what = src.pick(f'step{i}', choices)
            CLOCK[0].advance(period)
            if what == 'start' or what == 'restart':
                pid = 100 + i
                fake.alive = {pid} | set(others.values())
                running = pid
                collector.update_process_list(ns, pid)      # RUNNING event carries the pid
                told_stopped = False
            elif what == 'stop':
                fake.alive = set(others.values())
                running = None
                collector.update_process_list(ns, 0)        # any other state: pid 0
                told_stopped = True
            elif what == 'die_silently':
                fake.alive = set(others.values())
                running = None
            else:
                fake.next_outcome = src.pick(f'psutil{i}', ['ok', 'oserror']) if running else 'ok'
                had = any(p['namespec'] == ns for p in collector.processes)
                # the collector's main loop samples until nothing is ready any more (every entry is, one period later)
                for _ in range(len(collector.processes) + 1):
                    if not collector.collect_recent_process():
                        break
                if running is None and had:
                    told_stopped = True                      # the sampling met NoSuchProcess
            forward()
            inst = comp.get_stats(ns, ident, period)
            if inst is not None:
                src.reach('history')
            src.check('one-entry-per-process', len([p for p in collector.processes if p['namespec'] == ns]) <= 1,
                      sig='collector')
            if running is None and told_stopped:
                src.check('history-of-stopped-process-dropped', inst is None and ns not in comp.holder_map,
                          sig=f'collector:after-{what}', step=i)
            if running is not None:
                src.check('running-process-still-collected', any(p['namespec'] == ns and p['process'].pid == running
                                                                 for p in collector.processes),
                          sig=f'collector:after-{what}', step=i)
            for other_ns, other_pid in others.items():
                src.check('running-process-still-collected',
                          any(p['namespec'] == other_ns and p['process'].pid == other_pid for p in collector.processes),
                          sig=f'collector:bystander-after-{what}', step=i, namespec=other_ns)
        # the bystanders stop at the end: each stop is reported to the compiler (pid 0), so that its history goes
        for other_ns in others:
            fake.alive = fake.alive - {others[other_ns]}
            collector.update_process_list(other_ns, 0)
            src.check('stop-reported-to-the-compiler', any(isinstance(x, dict) and x.get('namespec') == other_ns
                                                            and x.get('pid') == 0 for x in conn.sent),
                      sig='collector:bystander', namespec=other_ns, sent=[str(x)[:80] for x in conn.sent])
        src.reach('streamed')
    finally:
        COL.psutil = saved


@rigged
def trunc(src):
    """lemma: trunc_depth keeps the last `depth` elements for any length <= 8 and any depth >= 1"""
    from supvisors.statscompiler import trunc_depth
    n = src.pick_int('length', 0, 8)
    depth = src.int('depth', 1, 10)
    lst = list(range(n))
    trunc_depth(lst, depth)
    keep = n if n <= depth else depth
    src.check('length', len(lst) == keep, sig='trunc')
    src.check('keeps-the-latest', lst == list(range(n))[n - len(lst):], sig='trunc')
    src.reach('done')


# ------------------------------------------------------------------------------------------------ Float64 kernels
BOUND = 1e15         # jiffies / byte counters / seconds are far below


def _decl(names):
    return '\n'.join(f'(declare-const {n} (_ FloatingPoint 11 53))' for n in names)


def _finite_between(name, lo, hi):
    from fp.translate import f64
    return f'(assert (and (not (fp.isNaN {name})) (fp.leq {f64(lo)} {name}) (fp.leq {name} {f64(hi)})))'


UNTRANSLATED = []


def fp_queries():
    """[(name, description, smt text, variable names, replay function)] regenerated from the current source; a kernel
    whose current form the translator does not cover is listed in UNTRANSLATED (reported as inconclusive, never as
    success and never as a violation)"""
    out = []
    del UNTRANSLATED[:]
    for builder in (_cpu_query, _io_queries, _proc_query):
        try:
            builder(out)
        except (NotImplementedError, KeyError, StopIteration, AttributeError, ValueError, IndexError, TypeError) as exc:
            UNTRANSLATED.append(f'{builder.__name__}: {type(exc).__name__}: {exc}')
    return out


def _cpu_query(out):
    import supvisors.statscompiler as SC
    from fp.translate import cpu_expression, f64
    # --- CPU percentage of one core from non-decreasing counters
    term, guard, names, text = cpu_expression(SC.cpu_statistics)
    lw, li, rw, ri = names
    smt = ['(set-logic QF_FP)', _decl(names)]
    for n in names:
        smt.append(_finite_between(n, 0.0, BOUND))
    smt += [f'(assert (fp.leq {rw} {lw}))', f'(assert (fp.leq {ri} {li}))']
    if guard:
        smt.append(f'(assert (not (fp.isZero {guard})))')
    smt.append(f'(define-fun result () (_ FloatingPoint 11 53) {term})')
    smt.append(f'(assert (not (and (fp.leq {f64(0.0)} result) (fp.leq result {f64(100.0)}))))')
    smt += ['(check-sat)', f'(get-value ({" ".join(names)}))']

    def replay_cpu(m):
        r = SC.cpu_statistics([(m[lw], m[li])], [(m[rw], m[ri])])[0]
        return not (0 <= r <= 100), r
    out.append(('cpu-percentage-in-0-100', f'cpu_statistics: {text}', '\n'.join(smt), names, replay_cpu))


def _io_queries(out):
    import supvisors.statscompiler as SC
    from fp.translate import io_expression, f64
    # --- I/O rates (both directions) from non-decreasing counters over a duration of at least one period (>= 1 s)
    for d, (term, free, text) in enumerate(io_expression(SC.io_statistics)):
        names = list(free)
        lasts = [n for n in names if n.startswith('last')]
        refs = [n for n in names if n.startswith('ref')]
        others = [n for n in names if n not in lasts + refs]
        if len(lasts) != 1 or len(refs) != 1 or len(others) != 1:
            raise NotImplementedError(f'io_statistics: unexpected variables {names} in {text}')
        lv, rv, dv = lasts[0], refs[0], others[0]
        smt = ['(set-logic QF_FP)', _decl(names), _finite_between(lv, 0.0, 2.0 ** 53),
               _finite_between(rv, 0.0, 2.0 ** 53), _finite_between(dv, 1.0, BOUND),
               f'(assert (fp.leq {rv} {lv}))',
               f'(define-fun result () (_ FloatingPoint 11 53) {term})',
               f'(assert (not (and (not (fp.isNaN result)) (not (fp.isInfinite result)) (fp.leq {f64(0.0)} result))))',
               '(check-sat)', f'(get-value ({" ".join(names)}))']

        def replay_io(m, d=d, lv=lv, rv=rv, dv=dv):
            pair = lambda x: (int(x), 0) if d == 0 else (0, int(x))
            r = SC.io_statistics({'x': pair(m[lv])}, {'x': pair(m[rv])}, m[dv])['x'][d]
            return not (math.isfinite(r) and r >= 0), r
        out.append((f'io-rate-{("in", "out")[d] if d < 2 else d}-finite-non-negative', f'io_statistics: {text}',
                    '\n'.join(smt), names, replay_io))


def _proc_query(out):
    import supvisors.statscompiler as SC
    from fp.translate import proc_expression, f64
    # --- process CPU from a non-decreasing work counter over at least one period
    term, free, text = proc_expression(SC.ProcStatisticsInstance.integrate)
    names = sorted(free)
    work = [n for n in names if 'work' in n]
    nows = [n for n in names if 'now' in n]
    lw = next(n for n in work if n.startswith('latest'))
    rw = next(n for n in work if n.startswith('ref'))
    ln = next(n for n in nows if n.startswith('latest'))
    rn = next(n for n in nows if n.startswith('ref'))
    smt = ['(set-logic QF_FP)', _decl(names)]
    for n in names:
        smt.append(_finite_between(n, 0.0, BOUND))
    smt += [f'(assert (fp.leq {rw} {lw}))', f'(assert (fp.leq (fp.add RNE {rn} {f64(1.0)}) {ln}))',
            f'(define-fun result () (_ FloatingPoint 11 53) {term})',
            f'(assert (not (and (not (fp.isNaN result)) (not (fp.isInfinite result)) (fp.leq {f64(0.0)} result))))',
            '(check-sat)', f'(get-value ({" ".join(names)}))']

    def replay_proc(m):
        inst = SC.ProcStatisticsInstance('a:b', 'i', 1, 1.0, 3)
        inst.ref_stats = {'proc_work': m[rw], 'now': m[rn]}
        r = inst.integrate({'proc_work': m[lw], 'now': m[ln], 'proc_memory': 0.0})[0]
        return not (math.isfinite(r) and r >= 0), r
    out.append(('process-cpu-finite-non-negative', f'ProcStatisticsInstance.integrate: {text}', '\n'.join(smt),
                names, replay_proc))


def validate_translation():
    """the translated CPU expression agrees with the real function on the vectors of tests/test_statscompiler.py and
    on extra ones (evaluated by z3's own Float64 arithmetic)"""
    import z3
    import supvisors.statscompiler as SC
    from fp.translate import cpu_expression
    try:
        term, guard, names, text = cpu_expression(SC.cpu_statistics)
    except NotImplementedError:
        return 0, None          # reported through UNTRANSLATED by fp_queries
    vectors = [((25.0, 10.0), (15.0, 5.0)), ((35.0, 20.0), (15.0, 5.0)), ((1.0, 3.0), (0.5, 2.0)),
               ((0.69, 0.0), (0.0, 0.0)), ((1e9 + 0.1, 7.5), (1e9, 2.5)), ((3.3, 9.9), (1.1, 2.2))]
    checked = 0
    for (lw, li), (rw, ri) in vectors:
        smt = ''.join(f'(declare-const {n} (_ FloatingPoint 11 53))' for n in names) + \
            f'(declare-const r (_ FloatingPoint 11 53))(assert (= r {term}))'
        s = z3.Solver()
        s.from_string(smt)
        for n, v in zip(names, (lw, li, rw, ri)):
            s.add(z3.FP(n, z3.Float64()) == z3.FPVal(v, z3.Float64()))
        assert s.check() == z3.sat
        got = _fpval(s.model().eval(z3.FP('r', z3.Float64())))
        real = SC.cpu_statistics([(lw, li)], [(rw, ri)])[0]
        if got != real:
            return checked, f'translation mismatch on {(lw, li, rw, ri)}: smt {got!r} / python {real!r}'
        checked += 1
    return checked, None


def _fpval(v):
    import struct
    import z3
    bv = z3.simplify(z3.fpToIEEEBV(v))
    return struct.unpack('>d', struct.pack('>Q', bv.as_long()))[0]


def extra_checks(tier, seed):
    """Float64 queries decided by cvc5 and z3; returns (violations, evidence, errors)"""
    from fp.solve import solve
    cap = 150 if tier == 'quick' else 600
    violations, errors = [], []
    ev = {'fp_queries': [], 'fp_translation_vectors_checked': 0}
    n, err = validate_translation()
    ev['fp_translation_vectors_checked'] = n
    if err:
        errors.append(err)
    import concurrent.futures
    queries = fp_queries()
    ev['fp_untranslated'] = list(UNTRANSLATED)
    if not queries:
        return violations, ev, errors
    with concurrent.futures.ThreadPoolExecutor(len(queries)) as ex:
        answers = list(ex.map(lambda q: solve(q[2], q[3], cap=cap), queries))
    for (name, desc, smt, names, replay), res in zip(queries, answers):
        verdicts = {s: r['verdict'] for s, r in res.items()}
        entry = {'query': name, 'expression': desc, 'verdicts': verdicts,
                 'solver_s': {s: r['wall_s'] for s, r in res.items()}}
        decided = {v for v in verdicts.values() if v in ('sat', 'unsat')}
        if decided == {'sat', 'unsat'}:
            errors.append(f'fp: solvers disagree on {name}: {verdicts}')
        elif 'sat' in decided:
            model = next(r['model'] for r in res.values() if r['verdict'] == 'sat' and r['model'])
            bad, value = replay(model)
            entry['model'] = model
            entry['replayed_value'] = value
            if bad:
                violations.append({'harness': 'fp', 'tag': name, 'signature': f'fp:{name}',
                                   'inputs': model, 'detail': {'value': value, 'expression': desc}})
            else:
                errors.append(f'fp: counterexample of {name} does not reproduce on the real function: {model} -> '
                              f'{value}')
        elif not decided:
            entry['inconclusive'] = True
        ev['fp_queries'].append(entry)
    return violations, ev, errors


def replay_extra(rec):
    q = next(x for x in fp_queries() if x[0] == rec['tag'])
    bad, value = q[4](rec['inputs'])
    return bad, {'value': value, 'expression': q[1]}


HARNESSES = [
    Harness('H20a', host_stream, quick={'k': 3}, thorough={'k': 4}, reach=('streamed', 'point'), timeout=(150, 1500),
            doc='host statistics stream: bounded, aligned, period respected'),
    Harness('H20p', process_stream, quick={'k': 4}, thorough={'k': 5}, reach=('streamed', 'point', 'stopped'),
            timeout=(100, 900), doc='process statistics stream: pid changes, stops, identifiers'),
    Harness('H20c', collector_stream, quick={'k': 5}, thorough={'k': 7}, reach=('streamed', 'history'),
            timeout=(60, 600), doc='real ProcessStatisticsCollector under psutil failures -> real ProcStatisticsCompiler'),
    Harness('H20i', io_kernel, quick={}, thorough={}, reach=('done', 'rate'), timeout=(60, 60),
            doc='io_statistics on symbolic 64-bit counters: wrap guard of both directions, key sets'),
    Harness('H20t', trunc, quick={}, thorough={}, reach=('done',), timeout=(30, 30), doc='trunc_depth lemma'),
]
BOUNDS = {'quick': {'samples': '3 (host) / 4 (process)', 'time_steps': DTS, 'period': '[1,3600] symbolic real', 'depth': '[1,3] symbolic', 'keys': 2,
                    'fp': 'full Float64, counters in [0,1e15], 150 s cap per solver'},
          'thorough': {'samples': 5, 'fp_cap_s': 600}}
OUTSIDE = ['timestamps and periods are exact rationals in the structure harnesses (the rounding of Float64 timestamp '
           'differences at the period boundary is not modelled; the arithmetic kernels are decided on Float64)',
           'streams longer than 5 samples (the depth and alignment claims are per push from the observed structures)',
           'a change of the number of CPU cores of one identifier (the statement varies key sets and pids)',
           'counters above 1e15 / 2^53']
ASSUMPTIONS = ['timestamps are non-decreasing', 'Float64 queries: an inconclusive (timeout / unknown) answer is '
               'reported as inconclusive, never as success; the two solvers must not disagree']
