"""C19 - start predictions are side-effect free and match a real start."""
from runner import Harness
from rig.stubs import rigged
from rig import adapter, snapshot
from rig.procsim import Sim
from harness import placement as PL
from harness import fsm_common as FC
from supervisor.states import ProcessStates as PS

PROPERTY = 'C19'


class _Shared:
    """hands the same symbolic inputs to a second build of the situation"""

    def __init__(self, src, values=None):
        self.src, self.values = src, values
        self.mine = {} if values is None else values

    def __getattr__(self, kind):
        if kind in ('pick', 'pick_flag', 'pick_int', 'choice', 'int', 'flag', 'int_in', 'subset'):
            def get(name, *a, **k):
                if name in self.mine:
                    return self.mine[name]
                v = getattr(self.src, kind)(name, *a, **k)
                self.mine[name] = v
                return v
            return get
        return getattr(self.src, kind)


def _situation(src, n, procs, lean):
    """a startable managed application in a symbolic placement situation, Supvisors in OPERATION"""
    from supvisors.ttypes import StartingStrategies, DistributionRules, SupvisorsStates as F
    core, sit, _ = PL.build_situation(src, n, lean=True, max_load=100, states=('RUNNING', 'STOPPED'))
    sit['pend'] = [0] * n
    ids = core.ids
    plist = []
    for k in range(procs):
        s = dict(sit)
        proc = PL.add_target(src, core, s, group='app0', name=f't{k}', prefix=f'p{k}_', lean=lean, rule=not lean)
        seq = src.pick(f'p{k}_seq', [1, 2]) if k == 1 else 1
        we = src.pick_flag(f'p{k}_wait_exit') if k == 0 else False
        adapter.set_rules(proc.rules, start_sequence=seq, required=False, wait_exit=we)
        plist.append((proc, s))
    app = core.context.applications['app0']
    dist = src.pick('distribution', ['ALL_INSTANCES', 'SINGLE_INSTANCE'])
    adapter.set_rules(app.rules, managed=True, start_sequence=1, distribution=DistributionRules[dist])
    core.finalize_rules()
    adapter.plant_fsm_state(core, F.OPERATION)
    core.state_modes.master_identifier = core.local_identifier
    # the first process may have been run with extra arguments before (they are kept for the next start)
    past = src.pick('past_of_the_first_process', ['nothing', 'run-with-extra-arguments', 'start-given-up',
                                                   'exited-before'])
    if past == 'run-with-extra-arguments':
        plist[0][0].extra_args = '-x 1'
    # the first process may carry the state forced by an earlier start that was given up (nothing received since)
    if past == 'start-given-up':
        from rig.stubs import CLOCK
        proc0 = plist[0][0]
        if proc0.info_map:
            core.listener.force_process_state(proc0, '', CLOCK[0].t, PS.FATAL, 'No resource available')
    # the first process may have run to completion before (the resting state of a wait_exit program is EXITED)
    if past == 'exited-before':
        proc0 = plist[0][0]
        for ident in list(proc0.info_map):
            for st in (PS.STARTING, PS.RUNNING, PS.EXITED):
                core.process_event(ident, 'app0', 't0', st, expected=True)
    core.rpc_handler.out.clear()
    return core, app, plist


@rigged
def purity(src, n=2, procs=2, lean=True, repeat=2, what=('application', 'process'), strategies=PL.STRATS):
    """H19a: test_start_application / test_start_process change nothing observable and send nothing"""
    core, app, plist = _situation(src, n, procs, lean)
    strat = src.pick('strategy', list(strategies))
    kind = src.pick('rpc', list(what))
    before = snapshot.take(core)
    results = []
    for _ in range(repeat):
        if kind == 'application':
            results.append(core.rpc_intf.test_start_application(strat, 'app0'))
        else:
            results.append(core.rpc_intf.test_start_process(strat, 'app0:t0'))
        after = snapshot.take(core)
        d = snapshot.diff(before, after)
        src.check('prediction-changes-nothing', d is None, sig=kind, difference=d)
        src.check('prediction-sends-nothing', not core.rpc_handler.out, sig=kind, sent=[n for n, _ in
                                                                                      core.rpc_handler.out][:3])
    src.check('repeated-prediction-is-the-same', all(_norm(r) == _norm(results[0]) for r in results), sig=kind)
    src.check('model-left-idle', not core.starter_model.in_progress(), sig=kind)
    src.reach('predicted')
    src.obs('prediction', _norm(results[0]))


def _norm(result):
    return sorted((r['process_name'], r['state'], sorted(r['running_identifiers']), r['forced_reason'])
                  for r in result)


@rigged
def faithfulness(src, n=2, procs=2, lean=True, strategies=PL.STRATS):
    """H19b: the predicted placement is the placement of an actual start from the same situation when every process
    starts normally (and exits as expected when wait_exit is set)"""
    from supvisors.ttypes import StartingStrategies
    shared = _Shared(src)
    core1, app1, plist1 = _situation(shared, n, procs, lean)
    strat = shared.pick('strategy', list(strategies))
    prediction = core1.rpc_intf.test_start_application(strat, 'app0')
    predicted = {r['process_name']: (sorted(r['running_identifiers']), r['state'], r['forced_reason'])
                 for r in prediction}
    core2, app2, plist2 = _situation(_Shared(src, shared.mine), n, procs, lean)
    sim = Sim(core2)
    from supervisor.xmlrpc import RPCError
    try:
        core2.rpc_intf.start_application(strat, 'app0', False)
    except RPCError:
        pass        # nothing could be planned: every prediction must then be a failure
    placed = {}
    for _ in range(4):
        for kind, ident, ns in sim.new_requests():
            name = ns.split(':')[1]
            placed.setdefault(name, []).append(ident)
            proc = app2.processes[name]
            sim.ack_start(ident, ns, 'exit_expected' if proc.rules.wait_exit else 'ok')
        core2.tick()
    nores = set()
    for nme, a in core2.rpc_handler.out:
        if nme == 'send_process_state_event' and a[0].get('forced') and a[0].get('spawnerr') == 'No resource available':
            nores.add(a[0]['name'])
    for name, (where, state, reason) in predicted.items():
        sig = f'{state}'
        if reason == 'No resource available':
            src.reach('no-resource')
            src.check('predicted-no-resource-is-real', name in nores and name not in placed, sig=sig, name=name,
                      placed=placed)
        else:
            src.reach('placed')
            # classification of a mismatch (for the signature): an earlier sequence of the application had been
            # started before this process (its load is then visible to the real start only - finding F20)
            seqs = {p.process_name: p.rules.start_sequence for p, _ in plist2}
            earlier = [q for q in predicted if seqs[q] < seqs[name] and q in placed]
            cause = ':after-earlier-sequence' if earlier else ''
            src.check('predicted-placement-is-real', sorted(placed.get(name, [])) == where, sig=sig + cause,
                      name=name, predicted=where, real=placed.get(name))
    for name in placed:
        src.check('real-start-was-predicted', name in predicted, sig='missing', name=name)
    src.obs('predicted', {k: list(v) for k, v in predicted.items()})


HARNESSES = [
    Harness('H19a', purity, quick={'n': 2, 'procs': 2, 'lean': True}, thorough={'n': 3, 'procs': 2, 'lean': True},
            reach=('predicted',), timeout=(120, 1200), doc='predictions are pure, also when repeated'),
    Harness('H19a-full', purity, quick={'n': 2, 'procs': 1, 'lean': False, 'repeat': 1,
                                        'strategies': ('CONFIG', 'LESS_LOADED', 'LOCAL')},
            thorough={'n': 2, 'procs': 2, 'lean': False}, reach=('predicted',), timeout=(120, 1200),
            doc='same with every eligibility dimension symbolic'),
    Harness('H19b', faithfulness, quick={'n': 2, 'procs': 2, 'lean': True}, thorough={'n': 3, 'procs': 2, 'lean': True},
            reach=('placed', 'no-resource'), timeout=(120, 1200), doc='prediction = actual start'),
]
BOUNDS = {'quick': {'instances': 2, 'processes': 2, 'loads': 'symbolic', 'strategies': 6,
                    'distribution': ['ALL_INSTANCES', 'SINGLE_INSTANCE'], 'repetitions': 2},
          'thorough': {'instances': 3}}
OUTSIDE = ['more than 2 processes / 3 instances', 'applications already partially started', 'SINGLE_NODE',
           'processes that do not start normally (the statement only compares with a normal start)']
ASSUMPTIONS = ['the observable state is what rig/snapshot.py reads through the real RPCInterface and serial() methods',
               'in the actual start every process starts at once (and exits as expected when wait_exit is set)']
