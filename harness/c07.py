"""C07 - silent instances are detected in bounded time, live ones never declared lost."""
from runner import Harness
from rig.stubs import rigged, CLOCK
from rig.core import Core
from rig import adapter
from spec import instance_graph as G
from supervisor.states import ProcessStates

PROPERTY = 'C07'


class StatusRecorder:
    """external publisher stub recording every exported instance status (the observable of the property)"""
    def __init__(self):
        self.instances = []

    def send_instance_status(self, payload):
        self.instances.append((payload['identifier'], payload['statename']))

    def __getattr__(self, name):
        if name.startswith('send_'):
            return lambda *a, **k: None
        raise AttributeError(name)


def _walk(src, records, ident, start, sig):
    """every exported change of `ident` follows the documented life cycle"""
    cur = start
    for i, st in records:
        if i != ident or st == cur:
            continue
        src.check('instance-life-cycle', G.is_edge(cur, st), sig=f'{cur}->{st}', **sig)
        cur = st
    return cur


def _proxy_reports_failure(core, status):
    """runs the real SupervisorProxyThread.handle_exception for the proxy of `status` (the thread object itself is
    replaced by its attributes: no socket, no OS thread); True when an INSTANCE_FAILURE notification is pushed"""
    import types
    from supvisors.internal_com.supervisorproxy import SupervisorProxyThread
    from supvisors.ttypes import NotificationHeaders
    pushed = []
    server = types.SimpleNamespace(push_notification=pushed.append)
    supvisors = types.SimpleNamespace(rpc_handler=types.SimpleNamespace(proxy_server=server), mapper=core.mapper,
                                      logger=core.logger, options=core.options, context=core.context)
    me = types.SimpleNamespace(status=status, supvisors=supvisors, logger=core.logger,
                               local_identifier=core.local_identifier,
                               _get_origin=lambda ident: core.mapper.instances[ident].source)
    SupervisorProxyThread.handle_exception(me)
    return any(message[0] == NotificationHeaders.INSTANCE_FAILURE.value for _, message in pushed)


@rigged
def trace(src, k=5, kinds=('local_tick', 'peer_tick', 'peer_tick_restarted', 'rpc_failure', 'handshake_ok'),
          t_range=(2, 720)):
    """H07b: k symbolic steps on a real instance watching one peer, against an independent tick-counting monitor"""
    from supvisors.ttypes import SupvisorsInstanceStates as S, SupvisorsStates as F
    core = Core(2, 0)
    rec = StatusRecorder()
    core.external_publisher = rec
    ids = core.ids
    local, peer = ids
    T = src.int('inactivity_ticks', *t_range)
    adapter._need(core.options, 'inactivity_ticks')
    core.options.inactivity_ticks = T
    fence = src.flag('auto_fence')
    core.options.auto_fence = fence
    for i in ids:
        core.identify(i)
    # the local instance is up and RUNNING, with an arbitrary tick counter
    c0 = src.int('local_counter', 0, 100000)
    core.listener.counter = c0 + 1      # counter of the next local tick
    core.set_instance_state(local, S.RUNNING)
    core.context.local_status.times.update(c0, CLOCK[0].t, CLOCK[0].t, -1)
    # Master and Supvisors state: known Master in a working state, or none yet
    # (the Master may be the watched peer itself: once it is FAILED nobody is the Master any more, so it is never
    # fenced on the strength of its own last state)
    who = src.pick('master', ['local-in-working-state', 'none', 'the-peer-in-working-state'])
    working = who == 'local-in-working-state'
    peer_is_master = who == 'the-peer-in-working-state'
    if working:
        adapter.plant_fsm_state(core, F.OPERATION)
        adapter.plant_peer_state_modes(core, local, master_identifier=local)
    elif peer_is_master:
        adapter.plant_fsm_state(core, F.OPERATION)
    else:
        adapter.plant_fsm_state(core, F.SYNCHRONIZATION)
    core.options.synchro_options = [__import__('supvisors.ttypes', fromlist=['x']).SynchronizationOptions.USER]
    # the peer starts in any state of its life cycle, last heard `since0` local ticks ago
    pstate = src.pick('peer_state', ['STOPPED', 'CHECKING', 'CHECKED', 'RUNNING'])
    src.assume(pstate == 'RUNNING' or not peer_is_master)
    core.set_instance_state(peer, S[pstate])
    if peer_is_master:
        adapter.plant_peer_state_modes(core, local, master_identifier=peer)
        adapter.plant_peer_state_modes(core, peer, state=F.OPERATION, master_identifier=peer)
    rc0 = src.int('peer_counter', 0, 100000)
    since = src.int('since0', 0, 721)
    src.assume(since <= T)        # otherwise it would already have been declared FAILED (induction hypothesis)
    src.assume(since <= c0)
    pst = core.context.instances[peer]
    if pstate != 'STOPPED':
        pst.times.update(rc0, CLOCK[0].t, CLOCK[0].t, c0 - since)
    # a process running on the peer
    core.add_process(peer, 'app', 'p', ProcessStates.STOPPED)
    core.add_process(local, 'app', 'p', ProcessStates.STOPPED)
    proc = core.context.applications['app'].processes['p']
    has_running = pstate in ('CHECKED', 'RUNNING')
    if has_running:
        core.process_event(peer, 'app', 'p', ProcessStates.RUNNING)
        # the local copy of the program may have reported something (a stopped-like state) after that: the loss of the
        # peer is still the latest news about the process
        if src.pick_flag('local_copy_reported_later'):
            CLOCK[0].advance(1)
            core.process_event(local, 'app', 'p', ProcessStates.EXITED, expected=True)
    rec.instances.clear()
    cur = pstate
    healthy = True          # ticks kept arriving, no restart, no XML-RPC failure since the peer became active
    last_rc = rc0
    for step in range(k):
        kind = src.pick(f'kind{step}', list(kinds))
        before = cur
        n_before = len(rec.instances)
        if kind == 'local_tick':
            since = since + 1
            # who is the Master, as this instance knows it before the tick (after the loss of a Master that was the peer
            # the local instance, alone, becomes the Master itself)
            pre_master = src.conc(core.state_modes.master_identifier)
            master_working = pre_master == local and core.fsm.state.name in ('DISTRIBUTION', 'OPERATION',
                                                                               'CONCILIATION', 'ELECTION')
            core.tick()
            after = core.context.instances[peer].state.name
            if before in G.ACTIVE:
                overdue = since > T
                if overdue:
                    src.reach('overdue')
                    iso = fence and master_working
                    exp = 'ISOLATED' if iso else 'STOPPED'
                    src.check('silent-peer-invalidated-by-this-tick', after == exp, sig=f'{before}->{exp}',
                              after=after, since=since, T=T)
                    if has_running:
                        src.check('its-processes-fatal-and-unlisted',
                                  peer not in proc.running_identifiers and proc.info_map[peer]['state']
                                  == ProcessStates.FATAL, sig=before)
                        src.check('process-that-ran-only-there-is-reported-fatal', proc.state == ProcessStates.FATAL,
                                  sig=before, state=proc.state)
                        has_running = False
                    healthy = True
                elif healthy:
                    src.reach('alive')
                    ok = after == before or (before == 'CHECKED' and after == 'RUNNING')
                    src.check('live-peer-not-declared-lost', ok, sig=f'{before}->{after}', since=since, T=T)
        elif kind in ('peer_tick', 'peer_tick_restarted'):
            if kind == 'peer_tick':
                last_rc = last_rc + 1
            else:
                dec = src.int(f'dec{step}', 1, 1000)
                src.assume(dec <= last_rc)
                last_rc = last_rc - dec
                healthy = False
            core.peer_tick(peer, last_rc)
            if before != 'ISOLATED':
                since = 0
            after = core.context.instances[peer].state.name
            if before == 'STOPPED':
                src.check('tick-from-stopped-starts-handshake', after == 'CHECKING', sig='STOPPED')
                healthy = kind == 'peer_tick'
                if kind == 'peer_tick':
                    # first tick of a new life: its counter is what it is (not related to the previous life)
                    pass
        elif kind == 'rpc_failure':
            # the real proxy thread decides whether the failure is worth a notification (handle_exception); what it
            # pushes comes back to the main thread as INSTANCE_FAILURE
            if _proxy_reports_failure(core, core.context.instances[peer]):
                core.fsm.on_instance_failure(core.context.instances[peer])
            healthy = False
            after = core.context.instances[peer].state.name
            if before in G.ACTIVE:
                src.check('rpc-failure-means-failed-at-once', after == 'FAILED', sig=before)
        elif kind == 'handshake_ok':
            core.fsm.on_authorization(core.context.instances[peer],
                                      {'authorization': 1, 'now_monotonic': CLOCK[0].t + 1})
            after = core.context.instances[peer].state.name
            if before == 'CHECKING':
                src.check('handshake-admits', after == 'CHECKED', sig='CHECKING')
                core.process_event(peer, 'app', 'p', ProcessStates.RUNNING)
                has_running = True
        # not every change is exported (the handshake result is not): close the walk with the state itself
        cur = _walk(src, rec.instances[n_before:] + [(peer, core.context.instances[peer].state.name)], peer,
                    before, {'step': kind})
        src.check('local-never-isolated', core.context.local_status.state != S.ISOLATED, sig=kind)
        if before == 'ISOLATED':
            src.check('isolated-is-final', cur == 'ISOLATED', sig=kind)
    src.check('no-internal-error', not core.logger.tracebacks(), log=core.logger.tracebacks()[:1])
    src.reach('done')
    src.obs('final', cur)


@rigged
def arithmetic(src):
    """H07a: the inactivity arithmetic on the real SupvisorsInstanceStatus for every counter value"""
    from supvisors.ttypes import SupvisorsInstanceStates as S
    core = Core(2, 0)
    ids = core.ids
    T = src.int('inactivity_ticks', 2, 720)
    core.options.inactivity_ticks = T
    st = src.choice('state', list(S))
    adapter.plant_instance_state(core, ids[1], st)
    status = core.context.instances[ids[1]]
    stored = src.int('local_counter_at_reception', 0, 10 ** 9)
    remote = src.int('remote_counter', 0, 10 ** 9)
    status.times.update(remote, 1.0, 1.0, stored)
    now = src.int('local_counter_now', 0, 10 ** 9)
    src.assume(now >= stored)
    r = status.is_inactive(now)
    active = (st == S.CHECKING) | (st == S.CHECKED) | (st == S.RUNNING) | (st == S.FAILED)
    src.check('inactive-iff-active-and-overdue', r == (active & (now - stored > T)), sig='is_inactive')
    # a decreasing remote counter (restart quicker than detection) resets the reference
    new_remote = src.int('new_remote_counter', 0, 10 ** 9)
    status.times.update(new_remote, 2.0, 2.0, now)
    if new_remote < remote:
        src.reach('stealth')
        # a peer that restarted quicker than the detection delay is declared lost at the next evaluation
        src.check('restart-forces-detection', status.is_inactive(now + 1) == (active & (now + 1 > T)), sig='stealth')
    else:
        later = src.int('later', 0, 2000)
        src.check('reference-is-reception-tick', status.is_inactive(now + later) == (active & (later > T)),
                  sig='update')
    src.reach('done')


HARNESSES = [
    Harness('H07a', arithmetic, quick={}, thorough={}, reach=('done', 'stealth'), timeout=(30, 60),
            doc='is_inactive / SupvisorsTimes.update for every counter value and inactivity_ticks in [2,720]'),
    Harness('H07b', trace, quick={'k': 5}, thorough={'k': 7}, reach=('overdue', 'alive', 'done'),
            timeout=(220, 1500),
            doc='k symbolic steps (local tick, peer tick, restarted peer tick, XML-RPC failure, handshake) with '
                'symbolic inactivity_ticks and counters vs a tick-counting monitor'),
]
BOUNDS = {'quick': {'steps': 5, 'inactivity_ticks': '[2,720] symbolic', 'counters': 'symbolic'},
          'thorough': {'steps': 7}}
OUTSIDE = ['wall-clock jitter of the Supervisor TICK_5 source (ticks are abstract steps)', 'more than one peer',
           'detection of a restarted peer (the statement only requires that a peer that has not restarted is kept)']
ASSUMPTIONS = ['induction hypothesis: the peer was heard at most inactivity_ticks local ticks ago',
               'external publisher stub records every exported instance status']
