"""C17 - XML-RPC commands are gated by the Supvisors state and fail cleanly."""
import types

from runner import Harness
from rig.stubs import rigged
from rig import adapter
from harness import fsm_common as FC
from spec import rpc_gate_table as G
from supervisor.states import ProcessStates as PS

PROPERTY = 'C17'
BAD_STATE, NOT_MANAGED = 101, 102
BAD_NAME, INCORRECT_PARAMETERS = 10, 2       # supervisor.xmlrpc.Faults

# method -> list of (variant, args, expected fault code or None when served)
CALLS = {
    'get_api_version': [('ok', (), None)],
    'get_supvisors_state': [('ok', (), None)],
    'get_master_identifier': [('ok', (), None)],
    'get_strategies': [('ok', (), None)],
    'get_all_instances_info': [('ok', (), None)],
    'get_instance_info': [('ok', ('10.0.0.1:25000',), None), ('nick', ('10.0.0.2',), None),
                          ('bad_name', ('nowhere',), BAD_NAME)],
    'get_all_instances_state_modes': [('ok', (), None)],
    'get_instance_state_modes': [('ok', ('10.0.0.1:25000',), None), ('bad_name', ('nowhere',), BAD_NAME)],
    'get_network_info': [('ok', ('10.0.0.1:25000',), None), ('nick', ('10.0.0.2',), None),
                         ('bad_name', ('nowhere',), BAD_NAME)],
    'get_all_applications_info': [('ok', (), None)],
    'get_application_info': [('ok', ('mapp',), None), ('bad_name', ('ghost',), BAD_NAME)],
    'get_application_rules': [('ok', ('mapp',), None), ('bad_name', ('ghost',), BAD_NAME)],
    'get_all_process_info': [('ok', (), None)],
    'get_process_info': [('ok', ('mapp:idle',), None), ('bad_name', ('mapp:ghost',), BAD_NAME),
                         ('bad_app', ('ghost:p',), BAD_NAME)],
    'get_process_rules': [('ok', ('mapp:idle',), None), ('bad_name', ('mapp:ghost',), BAD_NAME)],
    'get_conflicts': [('ok', (), None)],
    'get_all_inner_process_info': [('ok', ('10.0.0.1:25000',), None), ('bad_name', ('nowhere',), BAD_NAME)],
    'start_application': [('ok', ('CONFIG', 'mapp', False), None), ('bad_name', ('CONFIG', 'ghost', False), BAD_NAME),
                          ('bad_strategy', ('BOGUS', 'mapp', False), INCORRECT_PARAMETERS),
                          ('bad_strategy_value', (42, 'mapp', False), INCORRECT_PARAMETERS),
                          ('unmanaged', ('CONFIG', 'uapp', False), NOT_MANAGED)],
    'test_start_application': [('ok', ('CONFIG', 'mapp'), None), ('bad_name', ('CONFIG', 'ghost'), BAD_NAME),
                               ('bad_strategy', ('BOGUS', 'mapp'), INCORRECT_PARAMETERS),
                               ('unmanaged', ('CONFIG', 'uapp'), NOT_MANAGED)],
    'stop_application': [('ok', ('rapp', False), None), ('bad_name', ('ghost', False), BAD_NAME),
                         ('unmanaged', ('uapp', False), NOT_MANAGED)],
    'restart_application': [('ok', ('CONFIG', 'rapp', False), None), ('bad_name', ('CONFIG', 'ghost', False), BAD_NAME),
                            ('bad_strategy', ('BOGUS', 'rapp', False), INCORRECT_PARAMETERS),
                            ('unmanaged', ('CONFIG', 'uapp', False), NOT_MANAGED)],
    'start_process': [('ok', ('CONFIG', 'mapp:idle', '', False), None),
                      ('bad_name', ('CONFIG', 'mapp:ghost', '', False), BAD_NAME),
                      ('bad_strategy', ('BOGUS', 'mapp:idle', '', False), INCORRECT_PARAMETERS)],
    'test_start_process': [('ok', ('CONFIG', 'mapp:idle'), None), ('bad_name', ('CONFIG', 'mapp:ghost'), BAD_NAME),
                           ('bad_strategy', ('BOGUS', 'mapp:idle'), INCORRECT_PARAMETERS)],
    'start_any_process': [('ok', ('CONFIG', 'idl', '', False), None),
                          ('bad_strategy', ('BOGUS', 'idl', '', False), INCORRECT_PARAMETERS)],
    'stop_process': [('ok', ('rapp:run', False), None), ('bad_name', ('rapp:ghost', False), BAD_NAME)],
    'restart_process': [('ok', ('CONFIG', 'rapp:run', '', False), None),
                        ('bad_name', ('CONFIG', 'rapp:ghost', '', False), BAD_NAME),
                        ('bad_strategy', ('BOGUS', 'rapp:run', '', False), INCORRECT_PARAMETERS)],
    'update_numprocs': [('ok', ('prog', 2, False), None), ('bad_name', ('ghost', 2, False), BAD_NAME),
                        ('bad_value', ('prog', 0, False), INCORRECT_PARAMETERS),
                        ('bad_type', ('prog', 'many', False), INCORRECT_PARAMETERS)],
    'enable': [('ok', ('prog', False), None), ('bad_name', ('ghost', False), BAD_NAME)],
    'disable': [('ok', ('prog', False), None), ('bad_name', ('ghost', False), BAD_NAME)],
    'conciliate': [('ok', ('STOP',), None), ('user', ('USER',), None),
                   ('bad_strategy', ('BOGUS',), INCORRECT_PARAMETERS)],
    'restart_sequence': [('ok', (False,), None)],
    'end_sync': [('ok', ('',), None), ('named', ('10.0.0.1:25000',), None), ('nick', ('10.0.0.1',), None),
                 ('peer_nick', ('10.0.0.2',), None), ('bad_name', ('nowhere',), BAD_NAME)],
    'restart': [('ok', (), None)],
    'shutdown': [('ok', (), None)],
}


# wrong types where a strategy is expected: an XML-RPC boolean (a bool is an int for Python), a double, nil, an array
for _method, _args in (('start_application', lambda v: (v, 'mapp', False)), ('test_start_application', lambda v: (v, 'mapp')),
                       ('restart_application', lambda v: (v, 'rapp', False)),
                       ('start_process', lambda v: (v, 'mapp:idle', '', False)),
                       ('test_start_process', lambda v: (v, 'mapp:idle')),
                       ('start_any_process', lambda v: (v, 'idl', '', False)),
                       ('restart_process', lambda v: (v, 'rapp:run', '', False)), ('conciliate', lambda v: (v,))):
    for _label, _value in (('true', True), ('false', False), ('double', 1.0), ('nil', None), ('array', ['CONFIG'])):
        CALLS[_method].append((f'strategy_{_label}', _args(_value), INCORRECT_PARAMETERS))


WAIT_METHODS = ('start_application', 'stop_application', 'restart_application', 'start_process', 'start_any_process',
                'stop_process', 'restart_process', 'update_numprocs', 'enable', 'disable', 'restart_sequence')


class Updater:
    """stands for SupervisorUpdater (glue to supervisord internals): records what it is asked"""
    def __init__(self):
        self.calls = []

    def update_numprocs(self, program, value):
        self.calls.append(('update_numprocs', program, value))
        return [], []

    def enable_program(self, program):
        self.calls.append(('enable', program))

    def disable_program(self, program):
        self.calls.append(('disable', program))


def _effects(core):
    req = [n for n, a in core.rpc_handler.out if n in ('send_start_process', 'send_stop_process', 'send_restart',
                                                       'send_shutdown', 'send_restart_all', 'send_shutdown_all',
                                                       'send_restart_sequence')]
    h = core.failure_handler
    return {'requests': req, 'updater': list(core.supervisor_updater.calls), 'fsm': core.fsm.state.name,
            'starting': core.starter.in_progress(), 'stopping': core.stopper.in_progress(),
            'master': core.state_modes.master_identifier,
            'handler': bool(h.stop_application_jobs or h.restart_application_jobs or h.restart_process_jobs),
            'states': sorted((p.namespec, p.displayed_state) for a in core.context.applications.values()
                             for p in a.processes.values())}


@rigged
def gate(src):
    """H17: every XML-RPC method x every Supvisors state x Master / non-Master / no Master x parameter classes on a
    real RPCInterface"""
    from supervisor.xmlrpc import RPCError
    from supvisors.ttypes import SupvisorsStates as F, SynchronizationOptions
    method = src.pick('method', list(CALLS))
    variant, args, param_fault = src.pick('variant', CALLS[method])
    state = src.pick('state', list(G.ALL))
    master = src.pick('master', ['local', 'peer', 'none'])
    # wait=True: the answer is a deferred callback for the HTTP server instead of True; the gate, the parameter checks
    # and the effects of the call itself are the same (the callback is not polled here)
    if method in WAIT_METHODS and args and args[-1] is False and src.pick_flag('wait'):
        args = args[:-1] + (True,)
        variant += '+wait'
        src.reach('wait')
    core = FC.operational(2, {'synchro_options': 'USER' if method == 'end_sync' and src.pick_flag('user_option')
                              else 'LIST'}, master=1 if master == 'peer' else 0)
    ids = core.ids
    core.supervisor_updater = Updater()
    core.server_options = types.SimpleNamespace(program_configs={'prog': object()},
                                                get_subprocesses=lambda program: ['rapp:run', 'mapp:idle'])
    # applications: a managed startable one, a managed running one (with a duplicate for conciliate), an unmanaged one
    core.add_process(ids[0], 'mapp', 'idle', PS.STOPPED, program_name='prog')
    for i in ids:
        core.add_process(i, 'rapp', 'run', PS.STOPPED, program_name='prog')
    core.process_event(ids[0], 'rapp', 'run', PS.RUNNING)
    if state == 'CONCILIATION':
        core.process_event(ids[1], 'rapp', 'run', PS.RUNNING)
    core.add_process(ids[0], 'uapp', 'free', PS.STOPPED)
    for name in ('mapp', 'rapp'):
        adapter.set_rules(core.context.applications[name].rules, managed=True, start_sequence=1)
        for p in core.context.applications[name].processes.values():
            adapter.set_rules(p.rules, start_sequence=1)
    core.finalize_rules()
    adapter.plant_fsm_state(core, F[state])
    if master == 'none' or (method == 'end_sync'):
        # the Master has just been forgotten (e.g. it failed) - or is not known yet while synchronizing
        if master == 'none' or state == 'SYNCHRONIZATION':
            adapter.plant_peer_state_modes(core, ids[0], master_identifier='')
    # restart_sequence is documented to be refused while start / stop jobs are in progress - on any instance: the
    # other instance may have published jobs of its own while the local Starter and Stopper are idle
    peer_jobs = None
    if method == 'restart_sequence':
        peer_jobs = src.pick('peer_jobs', [None, 'starting', 'stopping'])
        if peer_jobs:
            adapter.plant_peer_state_modes(core, ids[1], **{peer_jobs + '_jobs': True})
    core.rpc_handler.out.clear()
    before = _effects(core)
    fault = None
    result = None
    try:
        result = getattr(core.rpc_intf, method)(*args)
    except RPCError as exc:
        fault = exc.code
    after = _effects(core)
    sig = f'{method}:{variant}'
    allowed = state in G.GATE.get(method, G.ALL)
    if state == 'FINAL' and G.GATE.get(method) is G.FROM_DISTRIBUTION:
        allowed = None       # the Supervisor is going down: served or refused, both are accepted
    if method == 'end_sync' and SynchronizationOptions.USER not in core.options.synchro_options:
        allowed = False if state != 'SYNCHRONIZATION' else None       # NOT_APPLICABLE inside SYNCHRONIZATION
    if allowed is False:
        src.reach('gated')
        src.check('refused-outside-its-states', fault == BAD_STATE, sig=sig, state=state, fault=fault)
        src.check('refused-request-has-no-effect', before == after, sig=sig, state=state, before=before, after=after)
    elif allowed:
        src.reach('allowed')
        src.check('not-refused-in-its-states', fault != BAD_STATE or method in ('restart_sequence', 'end_sync',
                                                                                 'restart', 'shutdown'),
                  sig=sig, state=state, fault=fault)
        if param_fault is not None:
            src.reach('bad-parameter')
            src.check('documented-fault-for-bad-parameter', fault == param_fault, sig=sig, fault=fault,
                      expected=param_fault)
            src.check('rejected-request-has-no-effect', before == after, sig=sig, before=before, after=after)
        if method in ('restart', 'shutdown') and master == 'none':
            # documented: BAD_SUPVISORS_STATE when there is no Master instance to perform the request
            src.check('no-master-is-a-documented-fault', fault == BAD_STATE, sig=sig, fault=fault)
            src.check('rejected-request-has-no-effect', before == after, sig=sig)
    if peer_jobs:
        src.reach('jobs-elsewhere')
        src.check('refused-while-jobs-in-progress-elsewhere', fault == BAD_STATE, sig=sig, state=state, fault=fault,
                  peer=peer_jobs)
        src.check('refused-request-has-no-effect', before == after, sig=sig, state=state, before=before, after=after)
    if method == 'end_sync' and fault is None:
        # served: the Master that is now known (if any) is a real Supvisors identifier
        src.reach('end-sync-served')
        src.check('end-sync-names-a-real-instance', after['master'] in ('',) + tuple(ids), sig=sig,
                  master=after['master'])
    if fault is not None:
        src.check('fault-means-no-request', before['requests'] == after['requests']
                  and before['updater'] == after['updater'], sig=sig, fault=fault)
    src.check('no-internal-error', not core.logger.tracebacks(), log=core.logger.tracebacks()[:1])
    src.obs('outcome', [fault, after['fsm']])


HISTORY_RULES = ('<root>'
                 '<application name="mapp"><start_sequence>0</start_sequence><programs><program name="idle">'
                 '<identifiers>10.0.0.1:25000</identifiers><start_sequence>1</start_sequence></program></programs>'
                 '</application>'
                 '<application name="rapp"><start_sequence>1</start_sequence><programs><program name="run">'
                 '<identifiers>10.0.0.2:25000</identifiers><start_sequence>1</start_sequence></program></programs>'
                 '</application></root>')
# the calls issued in real histories: one served variant per gated family and the refusals that must have no effect
HISTORY_CALLS = ['get_supvisors_state', 'get_all_applications_info', 'get_process_info', 'get_conflicts',
                 'start_application', 'test_start_application', 'stop_application', 'restart_application',
                 'start_process', 'test_start_process', 'start_any_process', 'stop_process', 'restart_process',
                 'conciliate', 'restart_sequence', 'end_sync', 'restart', 'shutdown']


LATE_HISTORIES = ('OTHER-IN-ELECTION-BEFORE-ITS-MASTER',)
OTHER_ONLY = {'OTHER-LOST-ITS-MASTER': 'OPERATION', 'OTHER-IN-ELECTION-BEFORE-ITS-MASTER': 'ELECTION'}


def _history(src, target):
    """a real two-instance cluster (real rules file, fake supervisords) driven to `target` by a real history; returns
    the cluster and a function that tells whether supervisord work is held"""
    from rig.cluster import Cluster
    programs = {0: [('mapp', 'idle'), ('rapp', 'run'), ('uapp', 'free')], 1: [('rapp', 'run'), ('uapp', 'free')]}
    cfg = {'synchro_options': 'LIST,TIMEOUT', 'synchro_timeout': '15', 'conciliation_strategy': 'USER'}
    late = target in LATE_HISTORIES
    cl = Cluster(3 if late else 2, cfg, programs, rules=HISTORY_RULES)
    if late:
        cl.crash(2)                 # the third instance is not started yet
    slow = [True]

    def hold(task):
        return slow[0] and task[0] == 'supervisord'

    def rounds(k):
        for _ in range(k):
            for c in cl.live():
                c.tick()
                cl.drain(hold)
    if target == 'SYNCHRONIZATION':
        cl.crash(1)
        rounds(2)
    elif target == 'DISTRIBUTION':
        rounds(4)                   # rapp:run is requested on instance 2 and its supervisord does not answer yet
    else:
        slow[0] = False
        rounds(7)                   # OPERATION, rapp:run running on instance 2
        if target == 'CONCILIATION':
            cl.cores[0].supervisor_data.set_state('rapp:run', PS.STARTING)
            cl.cores[0].supervisor_data.set_state('rapp:run', PS.RUNNING)
            cl.drain()
            rounds(2)
        elif target == 'OTHER-LOST-ITS-MASTER':
            # a single XML-RPC of the other instance to the Master fails: it forgets its Master, the Master sees nothing
            cl.partition(0, 1)
            cl.cores[1].tick()
            cl.drain(hold)
            cl.heal(0, 1)
        elif target == 'OTHER-IN-ELECTION-BEFORE-ITS-MASTER':
            # a third instance joins and the other instance activates it one tick before the Master does
            cl.restart(2)
            cl.cores[2].tick()
            cl.drain(hold)
            cl.cores[1].tick()
            cl.drain(hold)
        elif target in ('RESTARTING', 'SHUTTING_DOWN'):
            slow[0] = True          # the stop of rapp:run stays pending
            getattr(cl.cores[0].rpc_intf, 'restart' if target == 'RESTARTING' else 'shutdown')()
            cl.drain(hold)
            rounds(1)
    return cl, hold


def _cluster_effects(cl, core):
    return {'fsm': core.fsm.state.name, 'starting': core.starter.in_progress(), 'stopping': core.stopper.in_progress(),
            'master': core.state_modes.master_identifier,
            'outbox': sorted((c.ident, pid, len(p.inbox)) for c in cl.live() for pid, p in c.proxies().items()),
            'orders': [list(c.supervisor_data.orders) for c in cl.cores],
            'handler': bool(core.failure_handler.stop_application_jobs or core.failure_handler.restart_application_jobs
                            or core.failure_handler.restart_process_jobs)}


@rigged
def history_gate(src):
    """H17h: the gate on instances brought to their state by a real history (Master and non-Master): a real cluster
    with a real rules file reaches SYNCHRONIZATION / DISTRIBUTION / OPERATION / CONCILIATION / RESTARTING /
    SHUTTING_DOWN, then one XML-RPC is issued on the Master or on the other instance"""
    from supervisor.xmlrpc import RPCError
    target = src.pick('history', ['SYNCHRONIZATION', 'DISTRIBUTION', 'OPERATION', 'CONCILIATION', 'RESTARTING',
                                  'SHUTTING_DOWN'] + list(OTHER_ONLY))
    cl, hold = _history(src, target)
    who = src.pick('instance', ['master', 'other'])
    src.assume(who == 'master' or target != 'SYNCHRONIZATION')
    src.assume(who == 'other' or target not in OTHER_ONLY)
    core = cl.cores[0] if who == 'master' else cl.cores[1]
    state = core.fsm.state.name
    src.check('history-reaches-the-state', state == OTHER_ONLY.get(target, target)
              and (cl.cores[0].state_modes.is_master() or target == 'SYNCHRONIZATION'), sig=f'{target}:{who}',
              state=state)
    if target in OTHER_ONLY:
        src.reach('other-differs-from-its-master')
    method = src.pick('method', HISTORY_CALLS)
    variant, args, param_fault = src.pick('variant', [v for v in CALLS[method] if v[0] in ('ok', 'bad_name', 'unmanaged',
                                                                                           'user')])
    before = _cluster_effects(cl, core)
    fault = None
    try:
        getattr(core.rpc_intf, method)(*args)
    except RPCError as exc:
        fault = exc.code
    after = _cluster_effects(cl, core)
    sig = f'{method}:{variant}:{who}'
    allowed = state in G.GATE.get(method, G.ALL)
    if method == 'end_sync':
        allowed = None if state == 'SYNCHRONIZATION' else False        # no USER option here: NOT_APPLICABLE inside
    if allowed is False:
        src.reach('gated')
        src.check('refused-outside-its-states', fault == BAD_STATE, sig=sig, state=state, fault=fault)
        src.check('refused-request-has-no-effect', before == after, sig=sig, state=state, before=before, after=after)
    elif allowed:
        src.reach('allowed')
        src.check('not-refused-in-its-states', fault != BAD_STATE or method in ('restart_sequence', 'restart',
                                                                                 'shutdown'),
                  sig=sig, state=state, fault=fault)
        if param_fault is not None:
            src.check('documented-fault-for-bad-parameter', fault == param_fault, sig=sig, fault=fault,
                      expected=param_fault)
            src.check('rejected-request-has-no-effect', before == after, sig=sig, before=before, after=after)
        if method in ('restart', 'shutdown') and not core.state_modes.master_identifier and fault is not None:
            src.check('no-master-is-a-documented-fault', fault == BAD_STATE, sig=sig, fault=fault)
    if fault in (BAD_STATE, NOT_MANAGED, BAD_NAME, INCORRECT_PARAMETERS):
        # a rejected request; (a request that was accepted and failed - ABNORMAL_TERMINATION - may have published the
        # forced state of the process)
        src.check('fault-means-no-request', before['outbox'] == after['outbox'] and before['orders'] == after['orders'],
                  sig=sig, fault=fault)
    elif fault is not None:
        src.check('fault-means-no-supervisor-order', before['orders'] == after['orders'], sig=sig, fault=fault)
    # the cluster goes on without internal error
    for _ in range(2):
        for c in cl.live():
            c.tick()
            cl.drain(hold)
    src.check('no-internal-error', not cl.criticals(), sig=sig, log=cl.criticals()[:1])


HARNESSES = [
    Harness('H17h', history_gate, quick={}, thorough={}, reach=('gated', 'allowed', 'other-differs-from-its-master'),
            timeout=(120, 300),
            doc='gate on the Master and on the other instance of a real cluster brought to 8 situations by real histories (incl. an instance that lost its Master / is in ELECTION before it)'),
    Harness('H17', gate, quick={}, thorough={}, reach=('gated', 'allowed', 'bad-parameter', 'wait', 'jobs-elsewhere'), timeout=(150, 300),
            doc='method x state x Master/non-Master/no Master x parameter classes x wait / no wait'),
]
BOUNDS = {'quick': {'methods': len(CALLS), 'states': 9, 'master': ['local', 'peer', 'none'],
                    'parameter_variants': sum(len(v) for v in CALLS.values())}}
OUTSIDE = ['what the deferred callback of wait=True does when the Supervisor HTTP server polls it (the call itself is inside)', 'statistics / log level RPCs',
           'states brought about by a real history (planted; the cluster harness issues RPCs in real histories)']
ASSUMPTIONS = ['SupervisorUpdater and ServerOptions are recorders (glue to supervisord internals)',
               'the local instance is RUNNING in a stable two-instance cluster']
