"""C14 - placement obeys the starting strategy and the distribution rule."""
from runner import Harness
from rig.stubs import rigged
from spec import placement as P
from harness import placement as PL

PROPERTY = 'C14'


@rigged
def choice(src, n=3, mode='optimal', lean=False):
    """H14a/H04a: the real get_supvisors_instance on a symbolic situation vs the oracle"""
    from supvisors.strategy import get_supvisors_instance
    from supvisors.ttypes import StartingStrategies
    core, sit, load_request_map = PL.build_situation(src, n, lean=lean)
    proc = PL.add_target(src, core, sit, lean=lean)
    strat = src.pick('strategy', PL.STRATS)
    candidates = proc.possible_identifiers()
    chosen = get_supvisors_instance(core, StartingStrategies[strat], candidates, sit['L'], load_request_map)
    idx = None if chosen is None else core.ids.index(chosen)
    src.reach('chosen' if idx is not None else 'none')
    if mode == 'eligible':
        elig = P.eligible(sit)
        if idx is None:
            src.check('none-iff-nobody-eligible', (0 not in elig) if strat == 'LOCAL' else (not elig), sig=strat)
        else:
            src.check('chosen-is-eligible', idx in elig, sig=strat)
    else:
        why = P.check_choice(sit, strat, idx)
        src.check('strategy-order', why is None, sig=strat, why=why)
    src.check('no-internal-error', not core.logger.tracebacks())
    src.obs('chosen', idx)


@rigged
def distribution(src, n=2, procs=2, lean=True, dist=('SINGLE_INSTANCE', 'SINGLE_NODE'), late=False):
    """H14b: real ApplicationStartJobs.before / distribute_to_single_instance / distribute_to_single_node"""
    from harness.c04 import start_apps
    core, targets, reqs = start_apps.__wrapped__(src, n=n, procs=procs, apps=1, lean=lean, dist=dist, late=late)
    late_ns = getattr(core, 'late_namespec', None)
    late_reqs = [r for r in reqs if r[1] == late_ns] + [(i, late_ns) for i in getattr(core, 'late_targets', [])]
    reqs = [r for r in reqs if r[1] != late_ns]
    application, dist_rule, plist = targets[0]
    ids = core.ids
    used = sorted({ids.index(i) for i, _ in reqs})
    strat = application.rules.starting_strategy.name
    if reqs and late_reqs:
        _late(src, core, targets, reqs, late_reqs, strat)
    if reqs:
        src.reach('distributed')
        sit = plist[0][1]
        by_name = {p.process_name: s for p, s in plist}
        if dist_rule == 'SINGLE_INSTANCE':
            src.check('single-instance', len(used) == 1, sig=dist_rule, used=used)
            total = sum(s['L'] for _, s in plist)
            s0 = dict(sit, pend=[0] * n)
            src.check('instance-carries-whole-sequence', P.node_load(s0, used[0]) + total <= 100, sig=dist_rule)
            if len(used) == 1 and len(reqs) == len(plist):
                # the instance chosen for the whole application follows the strategy among the instances able to
                # carry the whole sequence (known and enabled for every program of it)
                whole = dict(s0, L=total, known=[all(s['known'][i] for _, s in plist) for i in range(n)],
                             enabled=[_all([s['enabled'][i] for _, s in plist]) for i in range(n)])
                why = P.check_choice(whole, strat, used[0])
                src.check('whole-application-follows-strategy', why is None, sig=f'{dist_rule}:{strat}', why=why)
        else:
            nodes_used = {sit['node'][i] for i in used}
            src.check('single-node', len(nodes_used) == 1, sig=dist_rule, used=used)
            if len(nodes_used) == 1:
                node = next(iter(nodes_used))
                pend = [0] * n
                for identifier, namespec in reqs:
                    i = ids.index(identifier)
                    s = by_name[namespec.split(':')[1]]
                    on_node = [j for j in s['permitted'] if s['node'][j] == node]
                    # within the node the strategy applies in the order declared by the application rule; both
                    # readings of "starts already requested" (with / without the starts planned earlier in the same
                    # distribution) are accepted
                    why = P.check_choice(dict(s, permitted=on_node, pend=list(pend)), strat, i)
                    if why is not None:
                        why = P.check_choice(dict(s, permitted=on_node, pend=[0] * n), strat, i) and why
                    src.check('strategy-within-the-node', why is None, sig=f'{dist_rule}:{strat}', why=why,
                              namespec=namespec)
                    pend[i] = pend[i] + s['L']


@rigged
def sequence_of_three(src, n=2, procs=3):
    """H14c: three processes of one sequence of a distributed application through the real Starter: each request goes
    where the strategy says given the loads *including every start already requested* (two of them may be pending on
    the same instance when the third is placed)"""
    from harness.c04 import start_apps
    core, targets, reqs = start_apps.__wrapped__(src, n=n, procs=procs, apps=1, lean=True)
    application, dist_rule, plist = targets[0]
    ids = core.ids
    strat = application.rules.starting_strategy.name
    by_name = {p.process_name: s for p, s in plist}
    pend = [0] * n
    for identifier, namespec in reqs:
        i = ids.index(identifier)
        s = by_name[namespec.split(':')[1]]
        why = P.check_choice(dict(s, pend=list(pend)), strat, i)
        src.check('strategy-order-with-pending-starts', why is None, sig=strat, why=why, namespec=namespec)
        pend[i] = pend[i] + s['L']
    src.reach('placed' if reqs else 'nothing-placed')


def _late(src, core, targets, reqs, late_reqs, strat):
    """the command added to the job in progress goes where the application goes (its own rule is replaced)"""
    application, dist_rule, plist = targets[0]
    ids = core.ids
    sit = plist[0][1]
    used = sorted({ids.index(i) for i, _ in reqs})
    for identifier, namespec in late_reqs:
        src.reach('command-added-to-a-job-in-progress')
        i = ids.index(identifier)
        if dist_rule == 'SINGLE_INSTANCE':
            src.check('added-command-follows-the-application', used == [i], sig=dist_rule, target=i, used=used)
        else:
            node = {sit['node'][j] for j in used}
            src.check('added-command-follows-the-application', {sit['node'][i]} == node and i in sit['permitted'],
                      sig=dist_rule, target=i, used=used)
            if strat == 'CONFIG':
                first = [j for j in sit['permitted'] if sit['node'][j] in node and sit['running'][j]]
                src.check('added-command-config-order', first and i == first[0], sig=dist_rule, target=i, first=first)


def _all(flags):
    out = True
    for f in flags:
        out = out & f if hasattr(f, 'e') or hasattr(out, 'e') else (out and f)
    return out


HARNESSES = [
    Harness('H14a', choice, quick={'n': 2}, thorough={'n': 3}, reach=('chosen', 'none'), timeout=(100, 1500),
            doc='real get_supvisors_instance + the six strategy classes vs the optimality oracle'),
    Harness('H14a-n3lean', choice, quick={'n': 3, 'lean': True}, thorough=None, reach=('chosen', 'none'),
            timeout=(100, 0),
            doc='N=3 (needed for node/instance tie-breaks) with the program known everywhere, pending loads '
                'everywhere and two rule orders; loads, states, node map, strategy symbolic'),
    Harness('H14b', distribution, quick={'n': 2, 'procs': 2, 'lean': True}, thorough={'n': 3, 'procs': 2, 'lean': True},
            reach=('distributed',), timeout=(100, 1200),
            doc='SINGLE_INSTANCE / SINGLE_NODE applications through the real Starter: one instance able to carry the '
                'whole sequence / instances of one node; the application identifiers rule applies'),
    Harness('H14c', sequence_of_three, quick={'n': 2, 'procs': 3}, thorough={'n': 3, 'procs': 3}, reach=('placed',),
            timeout=(90, 1200), doc='three processes of one sequence: strategy order with the pending starts added up'),
    Harness('H14b-late', distribution, quick={'n': 2, 'procs': 1, 'lean': True, 'late': True},
            thorough={'n': 3, 'procs': 1, 'lean': True, 'late': True},
            reach=('distributed', 'command-added-to-a-job-in-progress'), timeout=(60, 600),
            doc='a start request for a program outside the sequence, with its own rule, while the start of its '
                'non-distributed application is in progress (on_command_added)'),
    Harness('H14b-config', distribution, quick={'n': 2, 'procs': 2, 'lean': False, 'dist': ('SINGLE_NODE',)},
            thorough={'n': 3, 'procs': 2, 'lean': False, 'dist': ('SINGLE_NODE',)},
            reach=('distributed',), timeout=(100, 1200),
            doc='SINGLE_NODE with instances of one node knowing different programs'),
]
BOUNDS = {'quick': {'instances': 2, 'nodes': '1..2 (all partitions)', 'loads': 'running and pending load per instance '
                    'symbolic in [0,150]', 'expected_loading': 'symbolic in [0,100]',
                    'rule': "'*', empty, or any ordered sub-list"},
          'thorough': {'instances': 3, 'nodes': '1..3 (all partitions)'}}
OUTSIDE = ['more than 3 instances', 'stereotypes and nick identifiers in rules', 'discovery mode']
ASSUMPTIONS = ['ties between equally loaded instances: any maximal element is accepted',
               'instance states and loads are planted through rig/adapter.py (private fields _state, rules.*)']
