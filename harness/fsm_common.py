"""Symbolic situations for one real FiniteStateMachine step (used by C01, C02, C05, C08, C09, C16, C17).

The local instance (index 0) is a real rig.core.Core; everything a step of the state machine reads is a solver
variable: the local Supvisors state (9), the instance states as seen locally (6 each), the local Master
identifier, what every peer last published (its Supvisors state, its Master, its view of every instance), pending
start / stop jobs, a conflict, the uptime, and the options (synchro_options, supvisors_failure_strategy, auto_fence).
"""
from rig.stubs import CLOCK
from rig.core import Core
from rig import adapter
from symx import ssize, scontains, snot, sor, sand
from supervisor.states import ProcessStates

FSM = ['OFF', 'SYNCHRONIZATION', 'ELECTION', 'DISTRIBUTION', 'OPERATION', 'CONCILIATION', 'RESTARTING',
       'SHUTTING_DOWN', 'FINAL']
WORKING = ['DISTRIBUTION', 'OPERATION', 'CONCILIATION']
NEED_MASTER = ['DISTRIBUTION', 'OPERATION', 'CONCILIATION', 'RESTARTING', 'SHUTTING_DOWN']

SYNC_CHOICES = ['LIST', 'TIMEOUT', 'STRICT', 'CORE', 'USER', 'LIST,TIMEOUT']


_INSTALLED = [False]


def install_summaries():
    """fold the forking of pure query methods into formulas (symx.summary); the real bodies still run"""
    if _INSTALLED[0]:
        return
    _INSTALLED[0] = True
    from symx.summary import summarized, choice_key
    from supvisors.statemodes import StateModes, SupvisorsStateModes

    def sm_key(self):
        return choice_key(sorted(self.instance_states.items()))

    def sm_universe(self):
        return list(self.instance_states.keys())

    StateModes.get_stable_running_identifiers = summarized(StateModes.get_stable_running_identifiers, sm_key,
                                                           sm_universe)
    StateModes.running_identifiers = summarized(StateModes.running_identifiers, sm_key, sm_universe)

    def ssm_key(self, *a):
        items = [('l:' + i, v) for i, v in sorted(self.local_state_modes.instance_states.items())]
        items += [('m:' + i, sm.master_identifier) for i, sm in sorted(self.instance_state_modes.items())]
        items += [('a', a)]
        return choice_key(items)

    def masters_universe(self, *a):
        return list(self.instance_state_modes.keys()) + ['']

    SupvisorsStateModes.get_master_identifiers = summarized(SupvisorsStateModes.get_master_identifiers, ssm_key,
                                                            masters_universe)
    SupvisorsStateModes.check_master = summarized(SupvisorsStateModes.check_master, ssm_key)


def build(src, n=2, fsm_states=FSM, sync=SYNC_CHOICES, failure=('CONTINUE', 'RESYNC', 'SHUTDOWN'),
          fence=(False, True), conciliation=('USER',), jobs=True, conflict=True, peer_views='full',
          invariant=True, master_choices=None, summaries=True, blank_peer=None, pre_hook=None):
    from supvisors.ttypes import (SupvisorsInstanceStates as S, SupvisorsStates as F, StartingStrategies)
    from supvisors.commander import ProcessStartCommand, ProcessStopCommand, ApplicationStartJobs, ApplicationStopJobs
    if summaries:
        install_summaries()
    from supvisors.ttypes import SynchronizationOptions as SO, SupvisorsFailureStrategies as SFS, ConciliationStrategies
    cfg = {'synchro_options': 'LIST', 'synchro_timeout': '30', 'supvisors_list': ','.join(
        f'10.0.0.{i + 1}' for i in range(n))}
    core = Core(n, 0, cfg, core_list=['10.0.0.2'])
    ids = core.ids
    # options as lazy symbolic values (the code only reads them through `in`, `==` and truthiness)
    adapter._need(core.options, 'synchro_options')
    if sync == 'subsets':
        sync_opt = src.subset('sync', [SO[x] for x in ('STRICT', 'LIST', 'TIMEOUT', 'CORE', 'USER')])
        src.assume(ssize(sync_opt) >= 1)
        has_timeout = scontains(sync_opt, SO.TIMEOUT)
        has_user = scontains(sync_opt, SO.USER)
    else:
        lists = [[SO[x] for x in item.split(',')] for item in sync]
        sync_opt = src.choice('sync', lists)
        has_timeout = False
        has_user = False
        for k, l in enumerate(lists):
            if SO.TIMEOUT in l:
                has_timeout = sor(has_timeout, sync_opt == l) if len(lists) > 1 else True
            if SO.USER in l:
                has_user = sor(has_user, sync_opt == l) if len(lists) > 1 else True
    core.options.synchro_options = sync_opt
    fail_opt = src.choice('failure', [SFS[x] for x in failure])
    # TIMEOUT forces CONTINUE (SupvisorsOptions.check_options)
    if len(failure) > 1:
        src.assume(sor(snot(has_timeout), fail_opt == SFS.CONTINUE))
    core.options.supvisors_failure_strategy = fail_opt
    fence_opt = src.flag('auto_fence') if len(fence) > 1 else fence[0]
    core.options.auto_fence = fence_opt
    conc_opt = src.pick('conciliation', list(conciliation))
    core.options.conciliation_strategy = ConciliationStrategies[conc_opt]
    for i in ids:
        core.identify(i)
        core.set_instance_state(i, S.RUNNING)
    st = src.pick('fsm', list(fsm_states))
    sit = {'n': n, 'ids': ids, 'sync': sync_opt, 'failure': fail_opt, 'fence': fence_opt, 'has_user': has_user}
    # --- processes, conflict, jobs (set up while every instance is RUNNING so that events are accepted)
    has_conflict = conflict and st in ('OPERATION', 'CONCILIATION') and src.pick_flag('conflict')
    core.add_process(ids[0], 'capp', 'dup', ProcessStates.STOPPED)
    core.add_process(ids[1], 'capp', 'dup', ProcessStates.STOPPED)
    core.add_process(ids[0], 'capp', 'other', ProcessStates.STOPPED)
    app = core.context.applications['capp']
    adapter.set_rules(app.rules, managed=True)
    if pre_hook:
        pre_hook(core, ids)
    core.finalize_rules()
    if has_conflict:
        core.process_event(ids[0], 'capp', 'dup', ProcessStates.RUNNING)
        core.process_event(ids[1], 'capp', 'dup', ProcessStates.RUNNING)
    jobs = jobs and st in ('DISTRIBUTION', 'OPERATION', 'CONCILIATION', 'RESTARTING', 'SHUTTING_DOWN')
    start_job = jobs and st in ('DISTRIBUTION', 'OPERATION', 'CONCILIATION') and src.pick_flag('start_job')
    stop_job = jobs and src.pick_flag('stop_job')
    if start_job:
        proc = app.processes['other']
        job = ApplicationStartJobs(app, {}, StartingStrategies.CONFIG, core)
        cmd = ProcessStartCommand(proc, StartingStrategies.CONFIG)
        cmd.update_identifier(ids[0])
        cmd.update_sequence_counter()
        adapter._need(job, 'current_jobs')
        job.current_jobs.append(cmd)
        adapter._need(core.starter, 'current_jobs')
        core.starter.current_jobs['capp'] = job
    if stop_job:
        core.add_process(ids[0], 'sapp', 'stopping', ProcessStates.STOPPED)
        core.process_event(ids[0], 'sapp', 'stopping', ProcessStates.RUNNING)
        sapp = core.context.applications['sapp']
        proc = sapp.processes['stopping']
        job = ApplicationStopJobs(sapp, {}, core)
        cmd = ProcessStopCommand(proc, ids[0])
        cmd.update_sequence_counter()
        job.current_jobs.append(cmd)
        core.stopper.current_jobs['sapp'] = job
    sit.update(conflict=has_conflict, start_job=start_job, stop_job=stop_job)
    core.rpc_handler.out.clear()
    # --- local Supvisors state
    adapter.plant_fsm_state(core, F[st])
    sit['fsm'] = st
    # --- instance states as seen locally (lazy symbolic choices)
    local_states = [S.STOPPED, S.CHECKING, S.CHECKED, S.RUNNING, S.FAILED]     # the local instance is never ISOLATED
    ist = []
    for k, i in enumerate(ids):
        c = src.choice(f'ist{k}', local_states if k == 0 else list(S))
        adapter.plant_instance_state(core, i, c)
        ist.append(c)
    sit['ist'] = ist
    # --- Master known locally
    masters = list(master_choices) if master_choices is not None else ids + ['']
    lm = src.choice('master0', masters)
    adapter.plant_peer_state_modes(core, ids[0], master_identifier=lm)
    sit['master'] = lm
    # --- what the peers last published
    peers = []
    for k in range(1, n):
        if k == blank_peer:
            # this peer is about to publish: what it published before is overwritten, so it is not a variable
            sm = core.state_modes.instance_state_modes[ids[k]]
            peers.append({'state': sm.state, 'master': sm.master_identifier, 'view': dict(sm.instance_states)})
            continue
        pst = src.choice(f'pfsm{k}', [F[x] for x in FSM])
        pm = src.choice(f'pmaster{k}', masters)
        if peer_views == 'full':
            dom = list(S)
        else:
            # 3-valued abstraction (RUNNING / stable not running / unstable), justified by the lemma harness
            dom = [S.RUNNING, S.STOPPED, S.CHECKING]
        view = {ids[j]: src.choice(f'pview{k}_{j}', dom) for j in range(n)}
        adapter.plant_peer_state_modes(core, ids[k], state=pst, master_identifier=pm, instance_states=view)
        peers.append({'state': pst, 'master': pm, 'view': view})
    sit['peers'] = peers
    # --- uptime (vs SYNCHRO_TIMEOUT_MIN=15 and synchro_timeout=30)
    up = src.choice('uptime', [5.0, 20.0, 1000.0])
    adapter._need(core.context, 'start_date')
    core.context.start_date = up.map(lambda u: CLOCK[0].t - u) if hasattr(up, 'map') else CLOCK[0].t - up
    sit['uptime'] = up
    if invariant:
        assume_invariant(src, core, sit)
    return core, sit


def assume_invariant(src, core, sit):
    """representation invariant of reachable states (each clause is re-established by the real code after any
    step - asserted by harness/c02.py check_invariant after every step):
      I1  a non-empty local Master is an instance seen RUNNING locally (update_instance_state resets it otherwise).
          Not with the USER option: accept_master() adopts any Master declared remotely, whatever the local view, and
          such a declaration can come back through select_master in ELECTION (observed: two instances can keep a dead
          Master alive by adopting it from each other's stale declaration): with USER the clause is still *assumed*
          on the pre-state but it is not asserted after the step - the claim for USER configurations is conditional
          on it (stated in ASSUMPTIONS)
      I2  the information kept about a peer seen ISOLATED is the default one (reset on invalidation; nothing is
          accepted from it afterwards).  A peer seen STOPPED may have published since (Context.is_valid only refuses
          ISOLATED origins), so nothing is assumed about it
      I3  (same exception) what a peer published obeys I1 from that peer's point of view: the Master it declares is
          RUNNING in the view it published (update_instance_state resets the Master and publishes the new view in one publication) - asserted
          on every local publication by check_invariant
      (that the local instance sees itself RUNNING from ELECTION on is NOT assumed: the code checks it itself)
    """
    from supvisors.ttypes import SupvisorsInstanceStates as S, SupvisorsStates as F
    ids = sit['ids']
    lm = sit['master']
    exempt = False
    for k, i in enumerate(ids):
        src.assume(sor(exempt, sor(lm != i, sit['ist'][k] == S.RUNNING)))
    for k in range(1, sit['n']):
        p = sit['peers'][k - 1]
        gone = sit['ist'][k] == S.ISOLATED
        default = sand(p['state'] == F.OFF, p['master'] == '')
        src.assume(sor(snot(gone), default))
        src.assume(declares_running_master(p['master'], p['view'], ids))


PRE_ELECTION = ('OFF', 'SYNCHRONIZATION')


def declares_running_master(master, view, ids):
    """I3 on one publication: no Master declared, or a Master that the publisher sees RUNNING"""
    from supvisors.ttypes import SupvisorsInstanceStates as S
    ok = master == ''
    for i in ids:
        if i in view:
            ok = sor(ok, sand(master == i, view[i] == S.RUNNING))
    return ok


def published_states(core):
    return [a[0]['fsm_statename'] for n, a in core.rpc_handler.out if n == 'send_state_event']


def state_trace(core, sit):
    """sequence of Supvisors states published by the local instance during the step, preceded by the start state"""
    out = [sit['fsm']]
    for s in published_states(core):
        if s != out[-1]:
            out.append(s)
    return out


def operational(n=3, config=None, master=0, fsm='OPERATION', local=0, align=True):
    """a real instance in a consistent cluster: everybody RUNNING, one recognised Master, Supvisors in `fsm`"""
    from supvisors.ttypes import SupvisorsInstanceStates as S, SupvisorsStates as F
    cfg = {'synchro_options': 'LIST'}
    cfg.update(config or {})
    core = Core(n, local, cfg)
    ids = core.ids
    for i in ids:
        core.identify(i)
        core.set_instance_state(i, S.RUNNING)
    m = ids[master]
    core.state_modes.master_identifier = m
    for i in ids:
        if i != core.local_identifier:
            adapter.plant_peer_state_modes(core, i, state=F[fsm], master_identifier=m,
                                           instance_states={j: S.RUNNING for j in ids})
    adapter.plant_fsm_state(core, F[fsm])
    core.state_modes.evaluate_stability()
    core._round = 0
    # one full tick period so that every tick counter and reception reference is aligned
    if align:
        cluster_round(core)
    core.rpc_handler.out.clear()
    return core


def cluster_round(core, silent=()):
    """one tick period: the local tick, then one tick from every peer that is not silent"""
    core._round += 1
    core.tick()
    for i in core.ids:
        if i != core.local_identifier and i not in silent:
            st = core.context.instances[i]
            if st.state.name != 'ISOLATED':
                core.peer_tick(i, core._round)
