"""C13 - isolation is permanent, reciprocal and airtight."""
import json

from runner import Harness
from rig.stubs import rigged, CLOCK
from rig.core import Core, IPS
from rig.cluster import Cluster, RemoteCommEvent
from rig import adapter, snapshot
from supervisor.states import ProcessStates as PS

PROPERTY = 'C13'


def _isolated_cluster(n=3, restart=True):
    """n instances with auto_fence; the last one crashes, is isolated by the others, then comes back"""
    cfg = {'synchro_options': 'LIST,TIMEOUT', 'synchro_timeout': '15', 'auto_fence': 'True'}
    programs = {i: [('app', 'p1')] for i in range(n)}
    cl = Cluster(n, cfg, programs)
    for r in range(6):
        cl.round()
    cl.crash(n - 1)
    for r in range(6):
        cl.round()
    return cl


@rigged
def return_of_the_isolated(src, n=3, rounds=6):
    """H13c: an isolated instance restarts and talks again (ticks, state publications, process events, handshakes):
    relational check against a twin cluster where it stays dead; nothing is sent to it; it isolates the others"""
    twin = _isolated_cluster(n)
    cl = _isolated_cluster(n)
    x = n - 1
    xid = cl.cores[x].ident
    for c in cl.cores[:x]:
        src.check('lost-instance-is-isolated', c.context.instances[xid].state.name == 'ISOLATED', sig='setup',
                  state=c.context.instances[xid].state.name)
    mark = len(cl.net.sent)
    cl.restart(x)
    activity_round = src.pick_int('process_activity_round', 0, rounds - 1)
    for r in range(rounds):
        if r == activity_round:
            cl.cores[x].supervisor_data.set_state('app:p1', PS.STARTING)
            cl.cores[x].supervisor_data.set_state('app:p1', PS.RUNNING)
        cl.round()
        twin.round()
    for c, t in zip(cl.cores[:x], twin.cores[:x]):
        d = snapshot.diff(snapshot.take(t, times=False), snapshot.take(c, times=False))
        src.check('messages-of-an-isolated-instance-change-nothing', d is None, sig='twin', instance=c.ident,
                  difference=d)
        src.check('still-isolated', c.context.instances[xid].state.name == 'ISOLATED', sig='permanent')
        src.check('no-proxy-to-the-isolated', c.rpc_handler.proxy_server.get_proxy(xid) is None, sig='proxy')
    to_isolated = [s for s in cl.net.sent[mark:] if s[1] == xid and s[0] != xid]
    src.check('nothing-sent-to-the-isolated', not to_isolated, sig='sent', sent=to_isolated[:3])
    # reciprocity: the returning instance learns from the handshake that it is isolated and isolates the others
    back = cl.cores[x]
    for c in cl.cores[:x]:
        # (nobody talks to it any more, so it may never get the chance of a handshake: STOPPED is then what it sees)
        src.check('returning-instance-admits-nobody', back.context.instances[c.ident].state.name in ('ISOLATED',
                                                                                                       'STOPPED'),
                  sig='reciprocal', state=back.context.instances[c.ident].state.name)
    src.check('no-internal-error', not cl.criticals(), log=cl.criticals()[:1])
    src.reach('done')


def _messages(ids, xid, other):
    """(event type, header value, body) of every publication / notification kind, about or from the isolated peer"""
    t = 2000.0
    proc = {'identifier': xid, 'nick_identifier': xid, 'name': 'p1', 'group': 'app', 'state': 20, 'now': t,
            'now_monotonic': t, 'pid': 1, 'expected': True, 'spawnerr': '', 'extra_args': '', 'disabled': False}
    info = dict(proc, statename='RUNNING', start=t, stop=0, description='', start_monotonic=t, stop_monotonic=0,
                startsecs=1, stopwaitsecs=1, process_index=0, program_name='p1', has_stdout=True, has_stderr=False)
    state = {'identifier': xid, 'nick_identifier': xid, 'now_monotonic': t, 'fsm_statecode': 4,
             'fsm_statename': 'OPERATION', 'degraded_mode': False, 'discovery_mode': False, 'master_identifier': xid,
             'starting_jobs': False, 'stopping_jobs': False, 'instance_states': {i: 'RUNNING' for i in ids}}
    net = {'identifier': xid, 'nick_identifier': xid, 'host_id': xid.split(':')[0], 'http_port': 25000,
           'stereotypes': [], 'now_monotonic': t,
           'network': {'machine_id': 'aa:bb:cc:dd:ee:ff', 'fqdn': 'x', 'addresses': {}}}
    pubs = [(0, {'sequence_counter': 7, 'when': t, 'when_monotonic': t}), (1, proc), (2, info),
            (3, {'name': 'p1', 'group': 'app'}), (3, {'name': '*', 'group': 'app'}), (4, dict(info, disabled=True)),
            (5, {'now': t}), (6, {'now': t}), (7, state)]
    notifs = [(0, net), (0, None), (1, {'authorization': 1, 'now_monotonic': t}),
              (1, {'authorization': 0, 'now_monotonic': 0.0}), (2, state), (3, [info]), (3, None), (5, None)]
    return [('SupvisorsPublication', h, b) for h, b in pubs] + [('SupvisorsNotification', h, b) for h, b in notifs]


@rigged
def forged_messages(src, n=3, count=1):
    """H13a: any message kind whose claimed origin is the isolated peer (identifier / nick / address mixed with
    another peer's or unknown ones) changes nothing, compared with a twin that receives nothing"""
    cl = _isolated_cluster(n)
    twin = _isolated_cluster(n)
    c, t = cl.cores[0], twin.cores[0]
    ids = c.ids
    xid, other = ids[n - 1], ids[1]
    msgs = _messages(ids, xid, other)
    mark = len(cl.net.sent)
    for k in range(count):
        etype, header, body = src.pick(f'message{k}', msgs)
        who = {'isolated': (xid, IPS[n - 1]), 'other': (other, IPS[1]), 'unknown': ('10.0.0.99:25000', '10.0.0.99')}
        ci = src.pick(f'claimed_identifier{k}', list(who))
        cn = src.pick(f'claimed_nick{k}', list(who))
        ca = src.pick(f'claimed_address{k}', list(who))
        port = src.pick(f'claimed_port{k}', [25000, 26000])
        origin = [who[ci][0], who[cn][0].split(':')[0] if cn != 'unknown' else 'nobody', [who[ca][1], port]]
        # a claim that is consistently another admitted peer is a message of that peer (no authentication): skip
        resolved = {x for x in (ci, cn) if x != 'unknown'}      # unknown names are ignored by the resolution
        genuine_other = resolved == {'other'} and ca == 'other' and port == 25000
        src.assume(not genuine_other)
        if etype == 'SupvisorsNotification' and header == 0 and body is not None:
            src.assume(True)
        c.listener.on_remote_event(RemoteCommEvent(etype, json.dumps([origin, [header, body]])))
        cl.drain()
    d = snapshot.diff(snapshot.take(t, times=False), snapshot.take(c, times=False))
    src.check('forged-message-changes-nothing', d is None, sig=f'{etype}:{header}', difference=d)
    src.check('still-isolated', c.context.instances[xid].state.name == 'ISOLATED', sig=f'{etype}:{header}')
    src.check('instances-unchanged', list(c.context.instances) == list(t.context.instances), sig=f'{etype}:{header}')
    to_isolated = [s for s in cl.net.sent[mark:] if s[1] == xid]
    src.check('nothing-sent-to-the-isolated', not to_isolated, sig=f'{etype}:{header}', sent=to_isolated[:3])
    src.check('no-internal-error', not c.logger.tracebacks(), sig=f'{etype}:{header}', log=c.logger.tracebacks()[:1])
    src.reach('done')


@rigged
def handshake(src):
    """H13b: the real SupervisorProxy._is_authorized / check_instance on solver-chosen remote answers, then the real
    Context.on_authorization: ISOLATED exactly when the peer reports the local instance ISOLATED (or an unknown
    state) or when a strategy differs; UNKNOWN answer -> STOPPED; stale results change nothing"""
    from rig.cluster import make_proxy_class
    from supvisors.ttypes import SupvisorsInstanceStates as S
    cl = Cluster(2, {'synchro_options': 'LIST,TIMEOUT', 'synchro_timeout': '15'})
    c = cl.cores[0]
    peer = c.ids[1]
    answer_state = src.pick('remote_view_of_local', [0, 1, 2, 3, 4, 5, 99, 'fault'])
    differ = src.pick('strategy_difference', [None, 'auto-fencing', 'conciliation', 'starting', 'supvisors_failure',
                                              'missing', 'fault'])
    # a stale result: the peer is checked again (new CHECKING phase) after the first handshake has completed, or while
    # one of its XML-RPCs is still blocked (the proxy thread is slow, the main thread goes on)
    stale = src.pick('stale_result', [None, 'after', 'during-get_strategies', 'during-get_all_local_process_info'])
    holder = {}

    def slow(rpc):
        if stale == 'during-' + rpc and 'status' in holder:
            CLOCK[0].advance(1)
            holder['status'].state = S.STOPPED
            holder['status'].state = S.CHECKING
            CLOCK[0].advance(1)
            holder['rechecked'] = True
    mine = c.rpc_intf.get_strategies()

    class Remote:
        class supvisors:
            @staticmethod
            def get_instance_info(identifier):
                if answer_state == 'fault':
                    raise ConnectionRefusedError('down')
                return [{'identifier': identifier, 'statecode': answer_state}]

            @staticmethod
            def get_strategies():
                slow('get_strategies')
                if differ == 'fault':
                    raise ConnectionRefusedError('down')
                out = dict(mine)
                if differ == 'missing':
                    out.pop('starting')
                elif differ:
                    out[differ] = 'SOMETHING_ELSE' if differ != 'auto-fencing' else (not out[differ])
                return out

            @staticmethod
            def get_network_info(identifier):
                return None

            @staticmethod
            def get_instance_state_modes(identifier):
                return None

            @staticmethod
            def get_all_local_process_info():
                slow('get_all_local_process_info')
                return []

        class supervisor:
            @staticmethod
            def sendRemoteCommEvent(etype, data):
                cl.net.send(c.ident, c.ident, etype, data)
                return True
    # the handshake may complete at any moment of the life of the local instance: no Master yet, a Master at work, a
    # Master that is ending Supvisors (the statement makes no exception: a refusing / inconsistent peer is isolated)
    master_state = src.pick('master_state', [None, 'ELECTION', 'OPERATION', 'RESTARTING', 'SHUTTING_DOWN', 'FINAL'])
    if master_state:
        from supvisors.ttypes import SupvisorsStates as F
        from rig import adapter
        adapter.plant_peer_state_modes(c, c.ident, master_identifier=c.ident, state=F[master_state])
    status = c.set_instance_state(peer, S.CHECKING)
    holder['status'] = status
    proxy = c.rpc_handler.proxy_server.get_proxy(peer)
    proxy._proxy = Remote
    local_proxy = c.rpc_handler.proxy_server.get_proxy(c.ident)
    if stale:
        CLOCK[0].advance(1)
    from supvisors.internal_com.supervisorproxy import SupervisorProxyException
    try:
        proxy.check_instance()
    except SupervisorProxyException:
        proxy.handle_exception()
    if stale == 'after':
        CLOCK[0].advance(1)
        status.state = S.STOPPED
        status.state = S.CHECKING          # new handshake: checking_time is now later than the result
        holder['rechecked'] = True
    stale = stale if holder.get('rechecked') else None      # the slow XML-RPC may not be part of this handshake
    before = status.state.name
    cl.drain()
    after = status.state.name
    sig = f'{answer_state}:{differ}:{master_state}'
    if stale:
        src.reach('stale')
        src.check('stale-handshake-result-changes-nothing', after in (before, 'FAILED'), sig=f'{sig}:{stale}',
                  after=after)
    elif answer_state == 'fault' or differ == 'fault' and answer_state in (0, 1, 2, 3, 4):
        src.reach('unreachable')
        src.check('unreachable-peer-not-admitted', after in ('STOPPED', 'FAILED'), sig=sig, after=after)
    elif answer_state in (5, 99):
        src.reach('refused')
        src.check('peer-that-isolated-us-is-isolated', after == 'ISOLATED', sig=sig, after=after)
    elif differ is not None:
        src.reach('inconsistent')
        src.check('inconsistent-peer-is-isolated', after == 'ISOLATED', sig=sig, after=after)
    else:
        src.reach('admitted')
        src.check('consistent-peer-is-admitted', after == 'CHECKED', sig=sig, after=after)
    src.check('no-internal-error', not c.logger.tracebacks(), sig=sig, log=c.logger.tracebacks()[:1])


@rigged
def admission_gate(src):
    """H13d: process state, removal and disability events are only taken into account from CHECKED / RUNNING peers"""
    from supvisors.ttypes import SupvisorsInstanceStates as S
    core = Core(2, 0)
    ids = core.ids
    for i in ids:
        core.identify(i)
        core.set_instance_state(i, S.RUNNING)
    core.add_process(ids[1], 'app', 'p', PS.STOPPED)
    core.add_process(ids[0], 'app', 'q', PS.STOPPED)
    st = src.choice('sender_state', list(S))
    adapter.plant_instance_state(core, ids[1], st)
    admitted = src.conc((st == S.CHECKED) | (st == S.RUNNING)) if src.symbolic else st in (S.CHECKED, S.RUNNING)
    kind = src.pick('event', ['state', 'forced-state', 'removed', 'disability'])
    status = core.context.instances[ids[1]]
    before = snapshot.take(core)
    if kind == 'state':
        core.process_event(ids[1], 'app', 'p', PS.RUNNING)
    elif kind == 'forced-state':
        # what SupervisorListener.force_process_state of the sender publishes (a start given up about the process the
        # local instance hosts)
        t = CLOCK[0].t + 1
        core.fsm.on_process_state_event(status, {'identifier': ids[0], 'nick_identifier': status.nick_identifier,
                                                 'group': 'app', 'name': 'q', 'state': PS.FATAL, 'forced': True,
                                                 'now': t, 'now_monotonic': t, 'pid': 0, 'expected': False,
                                                 'spawnerr': 'No resource available', 'extra_args': '',
                                                 'disabled': False})
    elif kind == 'removed':
        core.fsm.on_process_removed_event(status, {'group': 'app', 'name': 'p'})
    else:
        core.fsm.on_process_disability_event(status, {'group': 'app', 'name': 'p', 'disabled': True})
    d = snapshot.diff(before, snapshot.take(core))
    if admitted:
        src.reach('admitted')
        src.check('event-from-admitted-peer-applied', d is not None, sig=kind)
    else:
        src.reach('not-admitted')
        src.check('event-from-unadmitted-peer-ignored', d is None, sig=kind, difference=d)


@rigged
def proxy_loop(src, k=4):
    """H13e: the real SupervisorProxyThread.run (executed in this thread) on a backlog of k solver-chosen messages;
    the proxy server stops it (what it does for an instance that has become ISOLATED) while message j is being
    handled: nothing of the backlog goes out afterwards"""
    import supvisors.internal_com.supervisorproxy as SP
    from supvisors.ttypes import SupvisorsInstanceStates as S
    IEH = SP.InternalEventHeaders
    cl = Cluster(2, {'synchro_options': 'LIST,TIMEOUT', 'synchro_timeout': '15'})
    core = cl.cores[0]
    peer = core.ids[1]
    status = core.set_instance_state(peer, S.RUNNING)
    sent = []

    class Remote:
        class supervisor:
            @staticmethod
            def sendRemoteCommEvent(etype, data):
                sent.append(('event', etype))
                return True

            @staticmethod
            def stopProcess(namespec, wait=True):
                sent.append(('stopProcess', namespec))
                return True

            @staticmethod
            def restart():
                sent.append(('restart',))
                return True

        class supvisors:
            @staticmethod
            def start_args(namespec, args, wait=True):
                sent.append(('start_args', namespec))
                return True
    thread = SP.SupervisorProxyThread(status, core)
    thread._proxy = Remote
    closing = []
    core.rpc_handler.proxy_server.on_proxy_closing = lambda ident: closing.append(ident)
    origin = core.ident
    from supvisors.ttypes import PublicationHeaders as PH, RequestHeaders as RH
    menu = {'tick': (IEH.PUBLICATION, (origin, (PH.TICK.value, {'when': 1.0}))),
            'process': (IEH.PUBLICATION, (origin, (PH.PROCESS.value, {'name': 'p'}))),
            'start': (IEH.REQUEST, (origin, (RH.START_PROCESS.value, ('app:p', '')))),
            'stop': (IEH.REQUEST, (origin, (RH.STOP_PROCESS.value, ('app:p',))))}
    kinds = [src.pick(f'message{i}', list(menu)) for i in range(k)]
    for kind in kinds:
        thread.push_message(menu[kind])
    stop_during = src.pick_int('stopped_while_handling', 1, k)
    isolated = src.pick_flag('isolated_at_that_moment')
    handled = [0]
    real = thread.process_event

    def process_event(event):
        handled[0] += 1
        if handled[0] == stop_during:
            # the main thread: the peer has just been isolated (or Supvisors is stopping) -> the proxy is stopped
            if isolated:
                adapter_state(core, peer, S.ISOLATED)
            thread.stop()
        return real(event)
    thread.process_event = process_event
    thread.run()
    src.check('nothing-handled-once-stopped', handled[0] == stop_during, sig='backlog', handled=handled[0],
              stopped_while_handling=stop_during, backlog=kinds)
    src.check('proxy-closing-notified-once', closing == [peer], sig='closing', closing=closing)
    src.check('no-internal-error', not core.logger.tracebacks(), log=core.logger.tracebacks()[:1])
    src.reach('done')


def adapter_state(core, identifier, state):
    from rig import adapter
    adapter.plant_instance_state(core, identifier, state)


HARNESSES = [
    Harness('H13e', proxy_loop, quick={'k': 4}, thorough={'k': 6}, reach=('done',), timeout=(60, 300),
            doc='real proxy thread loop: a stopped proxy (isolated peer) does not flush its backlog'),
    Harness('H13a', forged_messages, quick={'n': 3, 'count': 1}, thorough={'n': 3, 'count': 2}, reach=('done',),
            timeout=(150, 1800), doc='every message kind x claimed origin after isolation, twin comparison'),
    Harness('H13b', handshake, quick={}, thorough={}, reach=('admitted', 'refused', 'inconsistent', 'unreachable',
                                                             'stale'), timeout=(60, 120),
            doc='handshake outcomes on solver-chosen remote answers'),
    Harness('H13c', return_of_the_isolated, quick={'n': 3}, thorough={'n': 3, 'rounds': 8}, reach=('done',),
            timeout=(60, 120), doc='an isolated instance comes back: permanence, silence, reciprocity'),
    Harness('H13d', admission_gate, quick={}, thorough={}, reach=('admitted', 'not-admitted'), timeout=(30, 60),
            doc='events only from CHECKED / RUNNING peers'),
]
BOUNDS = {'quick': {'instances': 3, 'forged_messages': 1, 'message_kinds': 17, 'origin_claims': '3 x 3 x 3 x 2'},
          'thorough': {'forged_messages': 2}}
OUTSIDE = ['a forged origin that is consistently another admitted peer (no authentication in the protocol)',
           'isolation that ends with a restart of the local Supervisor (fresh instance by construction)']
ASSUMPTIONS = ['rig.cluster abstractions', 'the twin cluster receives the same ticks but not the messages under test']
