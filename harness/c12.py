"""C12 - all instances agree on where processes run, and that view is true."""
from runner import Harness
from rig.stubs import rigged
from rig.cluster import Cluster
from supervisor.states import ProcessStates as PS

PROPERTY = 'C12'
STABLE = ('RUNNING', 'STOPPED', 'ISOLATED')


def views(src, cl, tag, programs, at_change=None):
    """at quiescence: what every live instance reports vs what the supervisords of the instances it sees RUNNING
    actually run; and agreement between instances that see each other RUNNING"""
    reports = {}
    for c in cl.live():
        states = {i: s.state.name for i, s in c.context.instances.items()}
        if any(s not in STABLE for s in states.values()):
            src.reach('handshake-still-in-progress')
            continue
        running_peers = [i for i, s in states.items() if s == 'RUNNING']
        for ns in programs:
            group, name = ns.split(':')
            app = c.context.applications.get(group)
            proc = app.processes.get(name) if app else None
            reported = sorted(proc.running_identifiers) if proc else []
            # an instance whose Supervisor is stopping the process stays listed until it reports a stopped state
            truth = sorted(i for i in running_peers if cl.net.alive.get(i) and _state(cl, i, ns) in LISTED)
            truly_running = any(_state(cl, i, ns) in LISTED[:3] for i in truth)
            sig = tag + (f':observer-saw-actor-{at_change.get(c.ident)}' if at_change else '')
            src.check('reported-location-is-true', reported == truth, sig=sig, instance=c.ident, namespec=ns,
                      reported=reported, truth=truth, sees=states)
            running = bool(proc and proc.running())
            src.check('running-verdict-is-true', running == truly_running, sig=sig, instance=c.ident, namespec=ns,
                      state=proc.state if proc else None)
            reports[(c.ident, ns)] = (reported, running, tuple(sorted(running_peers)))
    # agreement between instances with the same set of RUNNING peers
    for (i, ns), r in reports.items():
        for (j, ns2), r2 in reports.items():
            if ns == ns2 and i < j and r[2] == r2[2]:
                sig = tag + (':observers-saw-actor-' + '+'.join(sorted({str(at_change.get(i)), str(at_change.get(j))}))
                             if at_change else '')
                src.check('instances-agree', r[:2] == r2[:2], sig=sig, namespec=ns, a=(i, r), b=(j, r2))
    src.check('no-internal-error', not cl.criticals(), log=cl.criticals()[:1])


LISTED = (PS.STARTING, PS.BACKOFF, PS.RUNNING, PS.STOPPING)


def _state(cl, ident, ns):
    info = cl.net.cores[ident].supervisor_data.table.get(ns)
    return info['state'] if info else None


def _activity(cl, i, ns, what, notes=None):
    sd = cl.cores[i].supervisor_data
    if not cl.net.alive[cl.cores[i].ident] or ns not in sd.table:
        return
    if notes is not None:
        # was some handshake involving the actor in progress (or not begun) when the process changed state?
        a = cl.cores[i]
        for c in cl.live():
            if cl.net.reachable(a.ident, c.ident) or c is a:
                sa = c.context.instances[a.ident].state.name
                so = a.context.instances[c.ident].state.name
                if sa not in ('CHECKED', 'RUNNING') or so not in ('CHECKED', 'RUNNING'):
                    notes.add('activity-during-handshake')
    st = sd.table[ns]['state']
    if what == 'start' and st not in (PS.STARTING, PS.RUNNING):
        sd.set_state(ns, PS.STARTING)
        sd.set_state(ns, PS.RUNNING)
    elif what == 'stop' and st in (PS.STARTING, PS.RUNNING):
        sd.set_state(ns, PS.STOPPING)
        sd.set_state(ns, PS.STOPPED)
    elif what == 'crash' and st in (PS.STARTING, PS.RUNNING):
        sd.set_state(ns, PS.EXITED, expected=False)
    elif what == 'stop_begin' and st in (PS.STARTING, PS.RUNNING):
        sd.set_state(ns, PS.STOPPING)
    elif what == 'stop_end' and st == PS.STOPPING:
        sd.set_state(ns, PS.STOPPED)


@rigged
def schedule(src, n=2, rounds=5, closing=5, perturbations=1, delays=1, activities=1):
    """H12: delay-bounded symbolic scheduling of n real instances while processes change state"""
    programs = {i: [('app', 'p1')] for i in range(n)}
    cl = Cluster(n, {'synchro_options': 'LIST,TIMEOUT', 'synchro_timeout': '15'}, programs)
    kinds = [('proc', i, w) for i in range(n) for w in ('start', 'stop')]
    faults = [('crash', i, None) for i in range(1, n)] + [('restart', i, None) for i in range(1, n)] + \
             [('partition', 0, 1), ('heal', 0, 1)]
    plan = []
    for k in range(activities):
        plan.append((src.pick_int(f'act{k}_round', 0, rounds - 2), src.pick_int(f'act{k}_pos', 0, n - 1),
                     src.pick(f'act{k}_kind', kinds)))
    for k in range(perturbations):
        plan.append((src.pick_int(f'pert{k}_round', 1, rounds - 1), src.pick_int(f'pert{k}_pos', 0, n - 1),
                     src.pick(f'pert{k}_kind', kinds + faults)))
    budget = [delays]
    counter = [0]
    notes = set()

    def hold(task):
        if budget[0] <= 0:
            return False
        counter[0] += 1
        if counter[0] > 400:
            return False
        if src.pick_flag(f'hold{counter[0]}'):
            budget[0] -= 1
            return True
        return False
    for r in range(rounds):
        for pos in range(n):
            for (pr, pp, kind) in plan:
                if pr == r and pp == pos:
                    what, a, b = kind
                    if what == 'proc':
                        _activity(cl, a, 'app:p1', b, notes)
                    elif what == 'crash':
                        cl.crash(a)
                    elif what == 'restart':
                        ida = cl.cores[a].ident
                        if any(c.context.local_sequence_counter <= c.options.inactivity_ticks
                               for c in cl.live() if c.ident != ida):
                            # finding F22: the stealth restart is recognised (TICK counter going down) but the forced
                            # inactivity (reception reference set to 0) cannot show on a peer whose own TICK counter is
                            # still <= inactivity_ticks; the next TICK of the new incarnation re-arms the reference
                            notes.add('restart-while-a-peer-is-in-its-first-ticks')
                        cl.restart(a)
                    elif what == 'partition':
                        cl.partition(a, b)
                    elif what == 'heal':
                        cl.heal(a, b)
            c = cl.cores[pos]
            if cl.net.alive[c.ident]:
                c.tick()
                cl.drain(hold)
    # closing rounds: no fault, no delay (a partition left open is healed first: the statement is about reachable
    # instances; both variants are explored by the 'heal' perturbation)
    for r in range(closing):
        cl.round()
    src.reach('quiescent')
    views(src, cl, 'schedule' + ''.join(':' + x for x in sorted(notes)), ['app:p1'])
    src.obs('views', {c.ident: sorted(c.context.applications['app'].processes['p1'].running_identifiers)
                      if 'app' in c.context.applications else None for c in cl.live()})


@rigged
def handshake_race(src, n=2, window=60, who=('joiner', 'member')):
    """H12-race: a process changes state on one side at a solver-chosen instant (task granularity) while another
    instance is joining (its handshake, snapshot and notifications are in flight)"""
    programs = {i: [('app', 'p1')] for i in range(n)}
    cl = Cluster(n, {'synchro_options': 'LIST,TIMEOUT', 'synchro_timeout': '15'}, programs)
    joiner = n - 1
    # the other instances are up and in OPERATION; the joiner is down
    cl.crash(joiner)
    for r in range(6):
        cl.round()
    initially = src.pick('initial_state', ['stopped', 'running'])
    side = src.pick('side', list(who))
    actor = joiner if side == 'joiner' else 0
    if initially == 'running' and side == 'member':
        _activity(cl, 0, 'app:p1', 'start')
        cl.drain()
    cl.restart(joiner)
    if initially == 'running' and side == 'joiner':
        cl.cores[joiner].supervisor_data.set_state('app:p1', PS.RUNNING, publish=False)
    change = 'stop' if initially == 'running' else 'start'
    k = src.pick_int('instant', 0, window)
    count = [0]
    done = [False]
    at_change = {}

    def hook(task):
        # called before every task: at the chosen instant the process changes state on the actor
        if not done[0] and count[0] == k:
            done[0] = True
            a = cl.cores[actor]
            for c in cl.live():
                at_change[c.ident] = (c.context.instances[a.ident].state.name + ':actor-saw-observer-'
                                      + a.context.instances[c.ident].state.name)
            _activity(cl, actor, 'app:p1', change)
        count[0] += 1
        return False
    for r in range(4):
        for pos in range(n):
            c = cl.cores[pos]
            c.tick()
            cl.drain(hook)
    if not done[0]:
        src.reach('window-too-long')
        _activity(cl, actor, 'app:p1', change)
    else:
        src.reach('during-handshake')
    for r in range(5):
        cl.round()
    views(src, cl, f'race:{side}:{change}', ['app:p1'], at_change)
    src.obs('tasks', count[0])


@rigged
def overlap(src, n=2, rounds=3, closing=5, delays=1, endings=('stopping', 'stopped')):
    """H12-overlap: the process is being stopped (slowly) on one instance while it is started on another one - the two
    Supervisors publish independently, so the observers receive STOPPING(A) and STARTING(B) in either order; the stop
    then completes, stays in progress, or A is lost before it completes"""
    programs = {i: [('app', 'p1')] for i in range(n)}
    cl = Cluster(n, {'synchro_options': 'LIST,TIMEOUT', 'synchro_timeout': '15'}, programs)
    for r in range(6):
        cl.round()
    a = src.pick_int('stopping_instance', 0, n - 1)
    b = src.pick('starting_instance', [i for i in range(n) if i != a])
    _activity(cl, a, 'app:p1', 'start')
    cl.drain()
    plan = [(src.pick_int('stop_round', 0, rounds - 2), src.pick_int('stop_pos', 0, n - 1), ('stop_begin', a)),
            (src.pick_int('start_round', 0, rounds - 2), src.pick_int('start_pos', 0, n - 1), ('start', b))]
    first = src.pick('first', ['stop', 'start'])
    if first == 'start':
        plan.reverse()
    ending = src.pick('ending', list(endings))
    budget = [delays]
    counter = [0]

    def hold(task):
        if budget[0] <= 0 or counter[0] > 400:
            return False
        counter[0] += 1
        if src.pick_flag(f'hold{counter[0]}'):
            budget[0] -= 1
            return True
        return False
    for r in range(rounds):
        for pos in range(n):
            for (pr, pp, (what, i)) in plan:
                if pr == r and pp == pos:
                    _activity(cl, i, 'app:p1', what)
            if r == rounds - 1 and pos == 0:
                if ending == 'stopped':
                    _activity(cl, a, 'app:p1', 'stop_end')
                elif ending == 'lost':
                    cl.crash(a)
            c = cl.cores[pos]
            if cl.net.alive[c.ident]:
                c.tick()
                cl.drain(hold)
    for r in range(closing):
        cl.round()
    src.reach('quiescent')
    if _state(cl, cl.cores[a].ident, 'app:p1') == PS.STOPPING and cl.net.alive[cl.cores[a].ident]:
        src.reach('still-stopping')
    views(src, cl, f'overlap:{ending}', ['app:p1'])
    src.obs('views', {c.ident: sorted(c.context.applications['app'].processes['p1'].running_identifiers)
                      for c in cl.live()})


@rigged
def multi_loss(src, n=4):
    """H12-loss: one real instance of a stable cluster; a process runs on a solver-chosen set of instances and a
    solver-chosen set of peers is lost within the same tick period (XML-RPC failure or silence): afterwards the local
    view lists exactly the surviving holders"""
    import itertools
    from harness import fsm_common as FC
    from supvisors.ttypes import SupvisorsInstanceStates as S
    fence = src.pick_flag('auto_fence')
    core = FC.operational(n, {'synchro_options': 'LIST,TIMEOUT', 'synchro_timeout': '15', 'auto_fence': str(fence)},
                          master=src.pick_int('master', 0, 1))
    ids = core.ids
    for i in ids:
        core.add_process(i, 'app', 'p', PS.STOPPED)
    holders = src.pick('holders', [c for k in range(1, n + 1) for c in itertools.combinations(range(n), k)])
    for h in holders:
        core.process_event(ids[h], 'app', 'p', PS.STARTING)
        core.process_event(ids[h], 'app', 'p', PS.RUNNING)
    lost = src.pick('lost', [c for k in range(1, n) for c in itertools.combinations(range(1, n), k)])
    how = {i: src.pick(f'how{i}', ['xmlrpc-failure', 'silence']) for i in lost}
    for i in lost:
        if how[i] == 'xmlrpc-failure':
            core.fsm.on_instance_failure(core.context.instances[ids[i]])
    for _ in range(5):
        FC.cluster_round(core, silent=[ids[i] for i in lost])
    proc = core.context.applications['app'].processes['p']
    expected = sorted(ids[h] for h in holders if h not in lost)
    sig = f'{len([h for h in holders if h in lost])}-holders-lost-of-{len(lost)}-lost'
    for i in lost:
        src.check('lost-instance-not-seen-running', core.context.instances[ids[i]].state in (S.STOPPED, S.ISOLATED),
                  sig=sig, instance=ids[i], state=core.context.instances[ids[i]].state.name)
    src.check('reported-location-is-true', sorted(proc.running_identifiers) == expected, sig=sig,
              reported=sorted(proc.running_identifiers), truth=expected)
    src.check('running-verdict-is-true', proc.running() == bool(expected), sig=sig, state=proc.state)
    src.check('no-internal-error', not core.logger.tracebacks(), log=core.logger.tracebacks()[:1])
    src.reach('done')


HARNESSES = [
    Harness('H12-loss', multi_loss, quick={'n': 4}, thorough={'n': 4}, reach=('done',), timeout=(100, 300),
            doc='several holders of a process lost in the same tick period (failure notification or silence)'),
    Harness('H12-overlap', overlap, quick={'n': 2}, thorough={'n': 3, 'endings': ('stopping', 'stopped', 'lost'),
                                                               'delays': 2},
            reach=('quiescent', 'still-stopping'), timeout=(100, 1200),
            doc='slow stop on one instance overlapping a start on another one, received in either order'),
    Harness('H12-race', handshake_race, quick={'n': 2}, thorough={'n': 3, 'window': 120},
            reach=('during-handshake',), timeout=(120, 900),
            doc='process state change at every task-level instant of a join handshake'),
    Harness('H12-faults', schedule, quick={'n': 2, 'rounds': 4, 'perturbations': 1, 'delays': 0, 'activities': 1},
            thorough={'n': 3, 'rounds': 4, 'perturbations': 2, 'delays': 0, 'activities': 1},
            reach=('quiescent',), timeout=(120, 1500),
            doc='process activity and one fault (crash, restart, partition, heal, more activity) at solver-chosen '
                'rounds and positions'),
    Harness('H12-delays', schedule, quick={'n': 2, 'rounds': 4, 'perturbations': 0, 'delays': 1, 'activities': 1},
            thorough={'n': 2, 'rounds': 4, 'perturbations': 1, 'delays': 2, 'activities': 1},
            reach=('quiescent',), timeout=(120, 1800),
            doc='delay-bounded symbolic scheduling: any one task (proxy, channel, supervisord) held until after the '
                'next tick'),
]
BOUNDS = {'quick': {'instances': 2, 'rounds': '4 + 5 closing', 'process_activities': 1, 'faults': 1,
                    'held_tasks': 1, 'race_window_tasks': 60},
          'thorough': {'faults_or_activities': 3, 'held_tasks': 2, 'race_instances': 3}}
OUTSIDE = ['non-atomic snapshot RPCs (the XML-RPCs of one check_instance are atomic in the rig)', 'N > 3',
           'more than 2 held tasks / 3 perturbations', 'OS threads']
ASSUMPTIONS = ['rig.cluster abstractions (atomic check_instance, proxy thread = FIFO task, restart = fresh instance)',
               'which stopped-like state is displayed is not compared']
