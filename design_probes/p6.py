"""probe: delay-bounded symbolic scheduling of the cluster rig (real code), solver-managed delay budget"""
import sys, time as _t
from unittest.mock import patch
import z3
from symx import Engine, SymBool, Unreachable
from cluster import Net, ClusterCore

N = int(sys.argv[1]); ROUNDS = int(sys.argv[2]); D = int(sys.argv[3])
CRASH = len(sys.argv) > 4 and sys.argv[4] == 'crash'
stats = {'steps': 0}

def run(eng):
    net = Net()
    cores = [ClusterCore(net, i, N, {'synchro_options': 'LIST,TIMEOUT', 'synchro_timeout': '15'}) for i in range(N)]
    for c in cores:
        net.cores[c.ident] = c; net.alive[c.ident] = True
    delays = []
    def may_delay(tag):
        if len(delays) >= 400: return False
        b = z3.Bool(f'delay_{len(delays)}_{tag}')
        delays.append(b)
        eng.assume_expr(z3.PbLe([(x, 1) for x in delays], D))
        return eng.branch(b)
    crash_round = None
    if CRASH:
        crash_round = int(eng.fresh_int('crash_round', 3, ROUNDS - 4))
        crash_who = int(eng.fresh_int('crash_who', 0, N - 1))
    with patch('socket.getfqdn', return_value='x'), patch('socket.gethostbyaddr', side_effect=lambda x: (x, [], [x])):
        for r in range(ROUNDS):
            for ci, c in enumerate(cores):
                if CRASH and r == crash_round and ci == 0:
                    net.alive[cores[crash_who].ident] = False
                if not net.alive[c.ident]:
                    continue
                c.tick()
                held = set()
                progress = True
                while progress:
                    progress = False
                    for c2 in cores:
                        if not net.alive[c2.ident]: continue
                        for pid, proxy in list(c2.rpc_handler.proxy_server.proxies.items()):
                            key = ('px', c2.ident, pid)
                            if proxy.inbox and key not in held:
                                if may_delay('px'):
                                    held.add(key); continue
                                proxy.process_event(proxy.inbox.popleft()); progress = True; stats['steps'] += 1
                    for key in net.pending():
                        if key in held: continue
                        if may_delay('ch'):
                            held.add(key); continue
                        net.deliver(key); progress = True; stats['steps'] += 1
    live = [c for c in cores if net.alive[c.ident]]
    crit = sum(len(c.criticals) for c in live)
    masters = {c.state_modes.master_identifier for c in live}
    states = {c.fsm.state.name for c in live}
    return (crit, tuple(sorted(masters)), tuple(sorted(states)))

eng = Engine()
t0 = _t.time()
res = eng.explore(run)
from collections import Counter
print('N', N, 'rounds', ROUNDS, 'D', D, 'crash', CRASH, 'paths', eng.paths, 'checks', eng.checks, 'time', round(_t.time() - t0, 1), 'steps/path', stats['steps'] // max(1, eng.paths))
for k, v in Counter(res).most_common(12): print(v, k)
