"""probe: N real Supvisors cores wired through an in-memory network (no threads, no sockets)"""
import json, time
from collections import deque
from unittest.mock import patch
from core import NullLogger, DummySupervisord, _patches
from supervisor.events import Tick5Event
from supervisor.xmlrpc import RPCError
from supvisors.ttypes import SUPVISORS_PUBLICATION, SUPVISORS_NOTIFICATION, NotificationHeaders
import supvisors.internal_com.supervisorproxy as SP

class FakeSupData:
    identifier = 'supervisor'
    def __init__(self, port): self.server_port = port
    def update_extra_args(self, *a): raise KeyError
    def autorestart(self, ns): raise KeyError
    def get_env(self): return {'SUPERVISOR_SERVER_URL': 'http://localhost:25000'}
    class _Intf:
        def getAllProcessInfo(self): return []
    supervisor_rpc_interface = _Intf()

class RemoteCommEvent:
    def __init__(self, type_, data): self.type, self.data = type_, data

class Net:
    """ FIFO channels: (src, dst) -> deque of (kind, payload) ; dst main-loop inbox """
    def __init__(self):
        self.cores = {}
        self.chan = {}
        self.alive = {}
        self.cut = set()   # partitioned pairs
    def reachable(self, a, b):
        return self.alive.get(b, False) and self.alive.get(a, False) and frozenset((a, b)) not in self.cut
    def send(self, src, dst, etype, message):
        self.chan.setdefault((src, dst), deque()).append((etype, json.dumps(message)))
    def pending(self):
        return [k for k, q in self.chan.items() if q]
    def deliver(self, key):
        src, dst = key
        etype, data = self.chan[key].popleft()
        if self.alive.get(dst):
            self.cores[dst].listener.on_remote_event(RemoteCommEvent(etype, data))

class FakeRemote:
    """ stands for xmlrpc ServerProxy to `target` : calls the real RPCInterface of the target core synchronously """
    def __init__(self, net, src, target):
        self.net, self.src, self.target = net, src, target
        outer = self
        class NS:
            def __init__(s, which): s.which = which
            def __getattr__(s, name):
                def call(*args):
                    if not outer.net.reachable(outer.src, outer.target):
                        raise ConnectionRefusedError('unreachable')
                    core = outer.net.cores[outer.target]
                    if s.which == 'supvisors':
                        return json.loads(json.dumps(getattr(core.rpc_intf, name)(*args)))
                    if name == 'sendRemoteCommEvent':
                        outer.net.send(outer.src, outer.target, args[0], json.loads(args[1]))
                        return True
                    core.sup_orders.append(name)
                    return True
                return call
        self.supvisors = NS('supvisors'); self.supervisor = NS('supervisor')

class FakeProxy(SP.SupervisorProxy):
    """ real SupervisorProxy logic (publish filter, check_instance, xml_rpc error handling) without thread """
    def __init__(self, status, supvisors):
        super().__init__(status, supvisors)
        self.inbox = deque()
    def start(self): pass
    def stop(self): pass
    def join(self): pass
    def _get_proxy(self):
        return FakeRemote(self.supvisors.net, self.supvisors.mapper.local_identifier, self.status.identifier)
    def push_message(self, message): self.inbox.append(message)
    handle_exception = SP.SupervisorProxyThread.handle_exception
    process_event = SP.SupervisorProxyThread.process_event
    def pump(self):
        while self.inbox:
            self.process_event(self.inbox.popleft())

class ClusterCore:
    def __init__(self, net, idx, n, config):
        from supvisors.options import SupvisorsOptions
        from supvisors.internal_com.mapper import SupvisorsMapper, LocalNetwork
        from supvisors.statemodes import SupvisorsStateModes
        from supvisors.context import Context
        from supvisors.commander import Starter, Stopper, StarterModel
        from supvisors.strategy import RunningFailureHandler
        from supvisors.statemachine import FiniteStateMachine
        from supvisors.listener import SupervisorListener
        from supvisors.internal_com.rpchandler import RpcHandler
        from supvisors.rpcinterface import RPCInterface
        from supvisors.statscompiler import HostStatisticsCompiler, ProcStatisticsCompiler
        self.net = net
        self.logger = NullLogger()
        self.criticals = []
        self.logger.critical = lambda m: self.criticals.append(m)
        ips = [f'10.0.0.{i+1}' for i in range(n)]
        my_ip = ips[idx]
        ioctl = {'lo': ('127.0.0.1', '255.0.0.0'), 'eth0': (my_ip, '255.255.255.0')}
        ps = list(_patches[:-1]) + [patch('supvisors.internal_com.mapper.get_interface_info', side_effect=lambda x: ioctl[x]),
                                    patch('uuid.getnode', return_value=1250999896491 + idx)]
        for p in ps: p.start()
        try:
            self.options = SupvisorsOptions(DummySupervisord, self.logger, **config)
            self.supervisor_data = FakeSupData(25000)
            self.mapper = SupvisorsMapper(self)
            self.mapper.configure(ips, set(), [])
            self.stats_collector = None; self.external_publisher = None; self.discovery_handler = None; self.parser = None
            self.host_compiler = HostStatisticsCompiler(self); self.process_compiler = ProcStatisticsCompiler(self.options, self.logger)
            self.state_modes = SupvisorsStateModes(self)
            self.context = Context(self)
            self.starter = Starter(self); self.stopper = Stopper(self); self.starter_model = StarterModel(self)
            self.failure_handler = RunningFailureHandler(self)
            self.listener = SupervisorListener(self)
            self.fsm = FiniteStateMachine(self)
            self.rpc_handler = RpcHandler(self)
            self.rpc_handler.proxy_server.klass = FakeProxy
            self.rpc_intf = RPCInterface(self)
        finally:
            for p in ps: p.stop()
        self.sup_orders = []
        self.ident = self.mapper.local_identifier
        self.listener.counter = 0
        self.clock = 1000
    def tick(self):
        self.clock += 5
        self.listener.on_tick(Tick5Event(self.clock, None))
    def pump(self):
        with patch('socket.getfqdn', return_value='x'):
            for proxy in list(self.rpc_handler.proxy_server.proxies.values()):
                proxy.pump()

def run(n=3, config=None, rounds=12):
    net = Net()
    cores = [ClusterCore(net, i, n, config or {'synchro_options': 'LIST'}) for i in range(n)]
    for c in cores:
        net.cores[c.ident] = c; net.alive[c.ident] = True
    with patch('socket.getfqdn', return_value='x'), patch('socket.gethostbyaddr', side_effect=lambda x: (x, [], [x])):
        for r in range(rounds):
            for c in cores:
                c.tick()
                # drain everything (fully synchronous round)
                progress = True
                while progress:
                    progress = False
                    for c2 in cores: c2.pump()
                    for key in net.pending():
                        net.deliver(key); progress = True
                    for c2 in cores:
                        if any(p.inbox for p in c2.rpc_handler.proxy_server.proxies.values()): progress = True
            print(r, [(c.fsm.state.name, c.state_modes.master_identifier[-7:-6] or '-', ''.join(s.state.name[0] for s in c.context.instances.values())) for c in cores], [len(c.criticals) for c in cores])
    return cores

if __name__ == '__main__':
    t = time.time()
    cores = run()
    print('time', time.time() - t)
    for c in cores:
        for m in c.criticals[:2]: print(m[-600:])
