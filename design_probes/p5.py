"""N=3 FSM step with peers' stable sets given directly as symbolic subsets (range abstraction)"""
import time as _t, sys
from symx import *
from core import Core
from supvisors.ttypes import SupvisorsStates as S, SupvisorsInstanceStates as IS
from supvisors.statemachine import FiniteStateMachine
from supvisors.statemodes import StateModes, SupvisorsStateModes
N = int(sys.argv[1]) if len(sys.argv) > 1 else 3
o1 = StateModes.get_stable_running_identifiers
def stable_stub(self):
    if hasattr(self, '_sym_stable'):
        return self._sym_stable
    return merged_call(Engine.cur, o1, self)
StateModes.get_stable_running_identifiers = stable_stub
o2 = SupvisorsStateModes.check_master
SupvisorsStateModes.check_master = lambda self, election=True: merged_call(Engine.cur, o2, self, election)
def run(eng):
    c = Core(N, {'synchro_options': 'LIST,USER', 'supvisors_failure_strategy': 'CONTINUE'})
    ids = list(c.mapper.instances)
    st = fresh_enum(eng, 'fsm', S, [S.ELECTION, S.DISTRIBUTION, S.OPERATION, S.CONCILIATION]).conc()
    c.state_modes.local_state_modes.state = st
    c.fsm.instance = FiniteStateMachine._StateInstances[st](c)
    for i, ident in enumerate(ids):
        s = fresh_enum(eng, f'is{i}', IS)
        c.context.instances[ident]._state = s
        c.state_modes.local_state_modes.instance_states[ident] = s
    mids = ids + ['']
    for i, ident in enumerate(ids):
        sm = c.state_modes.instance_state_modes[ident]
        sm.master_identifier = fresh_enum(eng, f'm{i}', str, mids)
        if i > 0:
            sm.state = fresh_enum(eng, f'pst{i}', S)
            sm._sym_stable = SymSet({idn: z3.Bool(f'st{i}_{j}') for j, idn in enumerate(ids)})
    c.fsm.next()
    end = c.fsm.state
    return (st, end if not isinstance(end, SymEnum) else end.conc())
eng = Engine()
t0 = _t.time()
res = eng.explore(run)
print('N', N, 'paths', eng.paths, 'merged inner', getattr(eng, 'merged_paths', 0), 'checks', eng.checks, 'time', round(_t.time()-t0,2))
from collections import Counter
print(sorted(Counter((a.name, b.name) for a, b in res).items()))
