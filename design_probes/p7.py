"""probe: placement optimality (C14/C04) on the real get_supvisors_instance with symbolic loads"""
import time as _t
import z3
from symx import *
from core import Core
from supvisors.ttypes import SupvisorsInstanceStates as IS, StartingStrategies as SS
from supvisors.strategy import get_supvisors_instance
from supvisors.process import ProcessStatus, ProcessRules

N = 3
bad = []

def run(eng):
    c = Core(N)
    ids = list(c.mapper.instances)
    # node map: instance i on node nd[i] in {0,1,2}
    nd = [int(eng.fresh_int(f'node{i}', 0, i)) for i in range(N)]   # canonical numbering
    for i, ident in enumerate(ids):
        mid = f'm{nd[i]}'
        c.mapper.nodes.setdefault(mid, []).append(ident)
        c.mapper.instances[ident].local_view = type('LV', (), {'machine_id': mid})
    running = []
    load = []; pend = []
    for i, ident in enumerate(ids):
        st = fresh_enum(eng, f'st{i}', IS)
        c.context.instances[ident]._state = st
        running.append(st == IS.RUNNING)
        l = eng.fresh_int(f'load{i}', 0, 150); load.append(l)
        p = eng.fresh_int(f'pend{i}', 0, 150); pend.append(p)
        # ballast process carrying the running load of instance i
        rules = ProcessRules(c); rules.expected_load = l
        proc = ProcessStatus('ballast', f'b{i}', rules, c)
        proc._state = 20; proc.running_identifiers = {ident}
        proc.info_map[ident] = {'state': 20}
        c.context.instances[ident].processes[proc.namespec] = proc
    cand = [i for i in range(N) if eng.branch(z3.Bool(f'cand{i}'))]
    exp = eng.fresh_int('exp', 0, 100)
    strat = fresh_enum(eng, 'strat', SS).conc()
    req = {ids[i]: pend[i] for i in range(N)}
    res = get_supvisors_instance(c, strat, [ids[i] for i in cand], exp, req)
    # ---- independent oracle ----
    def nload(i):
        return sum(load[j] + pend[j] for j in range(N) if nd[j] == nd[i])
    def iload(i):
        return load[i] + pend[i]
    elig = [i for i in cand if bool(running[i]) and bool(nload(i) + exp <= 100)]
    if res is None:
        if strat == SS.LOCAL:
            ok = 0 not in elig
        else:
            ok = not elig
    else:
        r = ids.index(res)
        ok = r in elig
        if ok:
            if strat == SS.CONFIG: ok = r == elig[0]
            elif strat == SS.LOCAL: ok = r == 0
            elif strat == SS.LESS_LOADED: ok = all(bool((iload(r) < iload(j)) | ((iload(r) == iload(j)) & (nload(r) <= nload(j)))) for j in elig)
            elif strat == SS.MOST_LOADED: ok = all(bool((iload(r) > iload(j)) | ((iload(r) == iload(j)) & (nload(r) >= nload(j)))) for j in elig)
            elif strat == SS.LESS_LOADED_NODE: ok = all(bool((nload(r) < nload(j)) | ((nload(r) == nload(j)) & (iload(r) <= iload(j)))) for j in elig)
            elif strat == SS.MOST_LOADED_NODE: ok = all(bool((nload(r) > nload(j)) | ((nload(r) == nload(j)) & (iload(r) >= iload(j)))) for j in elig)
    if not ok:
        m = eng.solver.model() if eng.solver.check() == z3.sat else None
        bad.append((strat.name, str(m)))
    return ok

eng = Engine()
t0 = _t.time()
res = eng.explore(run)
print('paths', eng.paths, 'checks', eng.checks, 'time', round(_t.time() - t0, 1), 'all ok', all(res), 'bad', len(bad))
for b in bad[:3]: print(b)
