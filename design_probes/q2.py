from core import Core
from supvisors.ttypes import SupvisorsStates as S, SupvisorsInstanceStates as IS
from supvisors.statemachine import FiniteStateMachine
for st in (S.CONCILIATION, S.DISTRIBUTION, S.OPERATION):
    c = Core(3, {'synchro_options': 'LIST', 'supvisors_failure_strategy': 'CONTINUE'})
    ids = list(c.mapper.instances)
    loc, master = ids[0], ids[1]
    for i in ids:
        c.context.instances[i]._state = IS.RUNNING
        c.state_modes.local_state_modes.instance_states[i] = IS.RUNNING
    for i in ids:
        sm = c.state_modes.instance_state_modes[i]
        sm.master_identifier = master; sm.state = st
        sm.instance_states = {j: IS.RUNNING for j in ids}
    c.fsm.instance = FiniteStateMachine._StateInstances[st](c)
    # master fails
    c.context.on_instance_failure(c.context.instances[master])
    seq=[c.fsm.state]
    for k in range(4):
        c.fsm.next(); seq.append(c.fsm.state)
    print(st.name, '->', [s.name for s in seq], 'master', repr(c.state_modes.master_identifier))
