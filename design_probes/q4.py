import traceback
from core import Core
from supvisors.ttypes import SupvisorsStates as S, SupvisorsInstanceStates as IS, StartingStrategies, ApplicationStatusParseError
from supvisors.application import ApplicationRules, ApplicationStatus
from supvisors.options import SupvisorsOptions
c = Core(2)
ids = list(c.mapper.instances)
def info(group, name, state=0):
    return {'group':group,'name':name,'state':state,'statename':'STOPPED','start':0,'stop':0,'now':100,'pid':0,'description':'','spawnerr':'','expected':True,
            'now_monotonic':50.0,'start_monotonic':0.0,'stop_monotonic':0.0,'startsecs':1,'stopwaitsecs':1,'extra_args':'','disabled':False,'program_name':name,'process_index':0}
c.context.load_processes(c.context.instances[ids[0]], [info('app','p1',20), info('app','p2')], check_state=False)
app = c.context.applications['app']; app.rules.managed = True
print('--- F3 formula')
for f in ['"p1".upper()', 'all()', 'any("(")', 'pass', 'import os', 'x = 1', '"p1" and "p2"', '__import__("os").system("echo HACK")', 'all("p.")', '(lambda: 1)()', '"p1" if "p2" else "p1"', '[x for x in "p1"]', '"nomatch"']:
    try:
        app.rules.status_formula = f
    except ApplicationStatusParseError as e:
        print(repr(f), 'setter refused:', e); continue
    except Exception as e:
        print(repr(f), 'SETTER RAISED', type(e).__name__, e); continue
    try:
        app.update(); print(repr(f), 'major', app.major_failure, 'minor', app.minor_failure)
    except Exception as e:
        print(repr(f), 'UPDATE RAISED', type(e).__name__, e)
print('--- F9 NaN')
print(SupvisorsOptions.to_period('nan'), SupvisorsOptions.to_periods('nan, 5'))
print('--- F10 remove running')
p1 = app.processes['p1']
print('before', p1.running_identifiers, p1.state)
c.context.instances[ids[0]]._state = IS.RUNNING
c.context.load_processes(c.context.instances[ids[1]], [info('app','p1',0)], check_state=False)
c.context.instances[ids[1]]._state = IS.RUNNING
app.rules._status_tree = None; app.rules._status_formula = None
c.context.on_process_removed_event(c.context.instances[ids[0]], {'group':'app','name':'p1'})
print('after removal', p1.running_identifiers, p1.state, list(p1.info_map))
try:
    c.context.on_process_state_event(c.context.instances[ids[1]], {'group':'app','name':'p1','state':0,'now':1,'now_monotonic':60.0,'expected':True,'extra_args':'','spawnerr':'','pid':0,'identifier':ids[1]})
    print('event ok', p1.running_identifiers, p1.state)
except Exception as e:
    print('EVENT RAISED', type(e).__name__, e)
print('--- F6 rpc')
from supvisors.rpcinterface import RPCInterface
from supervisor.xmlrpc import RPCError
r = RPCInterface(c)
for name in ['10.0.0.2:25000', '10.0.0.2', 'zzz']:
    try: print('get_network_info', name, type(r.get_network_info(name)).__name__)
    except RPCError as e: print('get_network_info', name, 'RPCError', e.code)
    except Exception as e: print('get_network_info', name, 'RAISED', type(e).__name__, e)
c.state_modes.local_state_modes.state = S.OPERATION
c.state_modes.local_state_modes.master_identifier = ''
for m in ('restart', 'shutdown'):
    try: print(m, getattr(r, m)())
    except RPCError as e: print(m, 'RPCError', e.code)
    except Exception as e: print(m, 'RAISED', type(e).__name__, e)
print('--- F12 identification None')
try:
    c.fsm.on_identification_event(None)
except Exception as e: print('RAISED', type(e).__name__, e)
print('--- load_processes None on RUNNING')
try:
    c.context.load_processes(c.context.instances[ids[1]], None)
except Exception as e: print('RAISED', type(e).__name__, e)
