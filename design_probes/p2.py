import time as _t
from symx import *
from p1 import SupStub, mk_info, IDS, spec_listed, _clock, ProcessStatus, ProcessRules
ALL = (0, 10, 20, 30, 40, 100, 200, 1000)
bad = []
def run(eng):
    _clock[0] = 100.0
    s = [eng.fresh_int(f's{i}', domain=ALL) for i in range(3)]
    l = [eng.fresh_bool(f'l{i}') for i in range(3)]
    who = eng.fresh_int('who', 0, 2)
    ev = eng.fresh_int('ev', domain=ALL)
    for i in range(3):
        eng.assume_expr(z3.Implies(l[i].e, z3.Or([s[i].e == v for v in (10, 20, 30, 40)])))
        eng.assume_expr(z3.Implies(z3.Or([s[i].e == v for v in (10, 20, 30)]), l[i].e))
    sup = SupStub()
    proc = ProcessStatus('app', 'proc', ProcessRules(sup), sup)
    for i, ident in enumerate(IDS):
        proc.info_map[ident] = mk_info(s[i], float(i))
    listed = [bool(x) for x in l]
    proc.running_identifiers = {IDS[i] for i in range(3) if listed[i]}
    ls = [s[i] for i in range(3) if listed[i]]
    if len(ls) >= 2:
        proc._state = next((x for x in (20, 30, 10, 40) if x in ls), 1000)
    elif len(ls) == 1:
        proc._state = ls[0]
    elif 40 in s:
        proc._state = 40
    else:
        proc._state = s[2]
    w = int(who)
    ident = IDS[w]
    payload = {'state': ev, 'now': 20.0, 'now_monotonic': 20.0, 'expected': True, 'extra_args': '', 'spawnerr': '', 'pid': 1}
    proc.update_info(ident, payload)
    exp = spec_listed({IDS[i] for i in range(3) if listed[i]}, s, ident, ev)
    ok = proc.running_identifiers == exp and proc.conflicting() == (len(exp) > 1)
    if not ok:
        bad.append(str(eng.solver.model()) if eng.solver.check()==z3.sat else '?')
    return ok
eng = Engine()
t0 = _t.time()
res = eng.explore(run)
print('paths', eng.paths, 'checks', eng.checks, 'time', round(_t.time()-t0,2), 'all ok', all(res), 'bad', bad[:3])
