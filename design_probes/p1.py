"""probe: CrossHair on real ProcessStatus.update_info / update_status with symbolic per-instance states"""
from typing import Tuple
from supervisor.states import ProcessStates, RUNNING_STATES, STOPPED_STATES
from supvisors.process import ProcessStatus, ProcessRules
import supvisors.process as P

class NullLogger:
    level = 100
    def __getattr__(self, name):
        return lambda *a, **k: None

class SupStub:
    def __init__(self):
        self.logger = NullLogger()
        class SD:
            def update_extra_args(self, *a): raise KeyError
        self.supervisor_data = SD()

ALL = (0, 10, 20, 30, 40, 100, 200, 1000)
IDS = ('A', 'B', 'C')
_clock = [0.0]
def fake_monotonic():
    _clock[0] += 1.0
    return _clock[0]
P.time.monotonic = fake_monotonic
ProcessStatus.update_description = staticmethod(lambda info: "")

def mk_info(state, mt):
    return {'state': state, 'now': 10.0, 'now_monotonic': 10.0, 'start': 1.0, 'start_monotonic': 1.0,
            'stop': 2.0, 'stop_monotonic': 2.0, 'expected': True, 'extra_args': '', 'disabled': False,
            'has_crashed': False, 'local_mtime': mt, 'event_time': 5.0, 'spawnerr': '', 'pid': 0,
            'description': '', 'statename': '', 'uptime': 0, 'program_name': 'p', 'process_index': 0,
            'exitstatus': 0}

def spec_listed(pre_listed, pre_states, who, new_state):
    out = set(pre_listed)
    if new_state in STOPPED_STATES:
        out.discard(who)
    elif new_state in RUNNING_STATES:
        out.add(who)
    return out

def step(s0: int, s1: int, s2: int, l0: bool, l1: bool, l2: bool, who: int, ev: int) -> bool:
    """
    pre: s0 in (0, 10, 20, 30, 40, 100, 200, 1000) and s1 in (0, 10, 20, 30, 40, 100, 200, 1000) and s2 in (0, 10, 20, 30, 40, 100, 200, 1000)
    pre: ev in (0, 10, 20, 30, 40, 100, 200, 1000)
    pre: 0 <= who <= 2
    pre: (not l0 or s0 in (10, 20, 30, 40)) and (s0 not in (10, 20, 30) or l0)
    pre: (not l1 or s1 in (10, 20, 30, 40)) and (s1 not in (10, 20, 30) or l1)
    pre: (not l2 or s2 in (10, 20, 30, 40)) and (s2 not in (10, 20, 30) or l2)
    post: _
    """
    import cnt; cnt.bump()
    _clock[0] = 100.0
    sup = SupStub()
    proc = ProcessStatus('app', 'proc', ProcessRules(sup), sup)
    states = [s0, s1, s2]
    listed = [l0, l1, l2]
    for i, ident in enumerate(IDS):
        proc.info_map[ident] = mk_info(states[i], float(i))
    proc.running_identifiers = {IDS[i] for i in range(3) if listed[i]}
    # make pre state consistent by running update_status once on a neutral basis is not possible -> set directly
    # synthesised pre-state
    ls = [states[i] for i in range(3) if listed[i]]
    if len(ls) >= 2:
        proc._state = next((x for x in (20, 30, 10, 40) if x in ls), 1000)
    elif len(ls) == 1:
        proc._state = ls[0]
    elif 40 in states:
        proc._state = 40
    else:
        proc._state = states[2]
    ident = IDS[who]
    payload = {'state': ev, 'now': 20.0, 'now_monotonic': 20.0, 'expected': True, 'extra_args': '', 'spawnerr': '', 'pid': 1}
    proc.update_info(ident, payload)
    exp = spec_listed({IDS[i] for i in range(3) if listed[i]}, states, ident, ev)
    return proc.running_identifiers == exp and proc.conflicting() == (len(exp) > 1)
