from core import Core
from supvisors.ttypes import SupvisorsStates as S, SupvisorsInstanceStates as IS, StartingStrategies
from supvisors.application import ApplicationRules
c = Core(2)
ids = list(c.mapper.instances)
# make both RUNNING
for i in ids:
    c.context.instances[i]._state = IS.RUNNING
    c.mapper.nodes.setdefault('m'+i, []).append(i)
    class LV: machine_id='m'+i
    c.mapper.instances[i].local_view = LV
def info(name, state=0):
    return {'group':'app','name':name,'state':state,'statename':'STOPPED','start':0,'stop':0,'now':100,'pid':0,'description':'','spawnerr':'','expected':True,
            'now_monotonic':50.0,'start_monotonic':0.0,'stop_monotonic':0.0,'startsecs':1,'stopwaitsecs':1,'extra_args':'','disabled':False,'program_name':name,'process_index':0}
for i in ids:
    c.context.load_processes(c.context.instances[i], [info('p1')], check_state=False)
app = c.context.applications['app']
app.rules.managed = True
p = app.processes['p1']; p.rules.start_sequence = 1
app.update_sequences(); app.update()
import copy
before = copy.deepcopy({k: dict(v) for k, v in p.info_map.items()})
print('before', {k: v['state'] for k, v in p.info_map.items()}, p.state, app.state)
r = c.starter_model.test_start_application(StartingStrategies.CONFIG, app)
print('prediction', r)
print('after', {k: v['state'] for k, v in p.info_map.items()}, p.state, p.running_identifiers, app.state, c.rpc_handler.out)
print('load', [c.context.instances[i].get_load() for i in ids])
