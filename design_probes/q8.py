"""probe F7: process event published between the handshake snapshot and the authorization is lost"""
from unittest.mock import patch
import time
import cluster as CL
from cluster import Net, ClusterCore
from supervisor import events
from supervisor.states import ProcessStates


class FakeProc:
    def __init__(self, group, name):
        self.group = type('G', (), {'config': type('GC', (), {'name': group})})
        self.config = type('C', (), {'name': name})
        self.pid = 0; self.spawnerr = ''; self.extra_args = ''
        self.supvisors_config = type('SC', (), {'program_config': type('PC', (), {'disabled': False, 'name': name}), 'process_index': 0})
        self.state = ProcessStates.STOPPED
        self.start = 0; self.stop = 0; self.backoff = 0


class FakeSupervisord:
    """ process table + event generation into the real listener """
    def __init__(self, core, programs):
        self.core = core
        self.procs = {f'{g}:{n}': FakeProc(g, n) for g, n in programs}
        core.supervisor_data.fake = self

    def info(self, ns):
        p = self.procs[ns]
        now = int(time.time())
        return {'name': p.config.name, 'group': p.group.config.name, 'state': p.state,
                'statename': {0: 'STOPPED', 10: 'STARTING', 20: 'RUNNING', 40: 'STOPPING', 100: 'EXITED', 200: 'FATAL'}[p.state],
                'start': p.start, 'stop': p.stop, 'now': now, 'pid': p.pid, 'description': '', 'spawnerr': p.spawnerr,
                'exitstatus': 0, 'logfile': '', 'stdout_logfile': '', 'stderr_logfile': ''}

    def set_state(self, ns, state):
        p = self.procs[ns]
        p.state = state
        p.pid = 4242 if state in (10, 20, 40) else 0
        if state == 10: p.start = int(time.time())
        if state in (0, 100, 200): p.stop = int(time.time())
        klass = {0: events.ProcessStateStoppedEvent, 10: events.ProcessStateStartingEvent, 20: events.ProcessStateRunningEvent,
                 40: events.ProcessStateStoppingEvent, 100: events.ProcessStateExitedEvent, 200: events.ProcessStateFatalEvent}[state]
        ev = klass(p, 0) if state != 100 else klass(p, 0, 0, True)
        if not hasattr(ev, 'expected'): ev.expected = True
        self.core.listener.on_process_state(ev)


class SupData(CL.FakeSupData):
    def get_process_info(self, ns):
        p = self.fake.procs[ns]
        return {'start_monotonic': 0.0, 'stop_monotonic': 0.0, 'now_monotonic': time.monotonic(), 'extra_args': '',
                'startsecs': 1, 'stopwaitsecs': 1, 'process_index': 0, 'program_name': p.config.name, 'disabled': False,
                'has_stdout': False, 'has_stderr': False}
    def update_start(self, ns): pass
    def update_stop(self, ns): pass
    def update_extra_args(self, ns, args):
        if ns not in self.fake.procs: raise KeyError(ns)
    @property
    def supervisor_rpc_interface(self):
        fake = self.fake
        class I:
            def getAllProcessInfo(s): return [fake.info(ns) for ns in fake.procs]
            def getProcessInfo(s, ns): return fake.info(ns)
        return I()


def drain(net, cores, hold=lambda kind, key: False):
    progress = True
    while progress:
        progress = False
        for c2 in cores:
            if not net.alive[c2.ident]: continue
            for pid, proxy in list(c2.rpc_handler.proxy_server.proxies.items()):
                while proxy.inbox and not hold('px', (c2.ident, pid)):
                    proxy.process_event(proxy.inbox.popleft()); progress = True
        for key in net.pending():
            if hold('ch', key): continue
            net.deliver(key); progress = True


def main():
    net = Net()
    cores = [ClusterCore(net, i, 2, {'synchro_options': 'TIMEOUT', 'synchro_timeout': '15'}) for i in range(2)]
    sups = []
    for c in cores:
        c.supervisor_data = SupData(25000)
        sups.append(FakeSupervisord(c, [('app', 'p1')]))
        net.cores[c.ident] = c; net.alive[c.ident] = True
    L, P = cores
    with patch('socket.getfqdn', return_value='x'), patch('socket.gethostbyaddr', side_effect=lambda x: (x, [], [x])):
        # P runs alone for a while, L is down
        net.alive[L.ident] = False
        for r in range(6):
            P.tick(); drain(net, cores)
        print('P alone:', P.fsm.state.name, P.context.instances[L.ident].state.name)
        # L starts; first let P learn about L (P sees L's tick -> CHECKING -> handshake), then L handshakes with P
        net.alive[L.ident] = True
        L.tick(); drain(net, cores)
        P.tick()
        # hold L's local notification queue (proxy L->L carries IDENTIFICATION/STATE/ALL_INFO/AUTHORIZATION) after the snapshot RPC
        held = {'on': False}
        def hold(kind, key):
            return held['on'] and kind == 'ch' and key == (L.ident, L.ident)
        # run L's proxy for P only (performs the snapshot RPCs against P now), keep the resulting notifications undelivered
        held['on'] = True
        drain(net, cores, hold)
        print('L sees P as', L.context.instances[P.ident].state.name, '| P sees L as', P.context.instances[L.ident].state.name,
              '| pending L->L notifications', len(net.chan.get((L.ident, L.ident), [])))
        # now the process changes state on P : event published to L (P sees L active)
        sups[1].set_state('app:p1', 10)
        sups[1].set_state('app:p1', 20)
        drain(net, cores, hold)
        # release the handshake notifications
        held['on'] = False
        drain(net, cores)
        for r in range(6):
            for c in cores:
                c.tick(); drain(net, cores)
        for c in cores:
            app = c.context.applications.get('app')
            p = app.processes['p1'] if app else None
            print(c.ident, c.fsm.state.name, 'p1 state', p and p.state, 'running on', p and p.running_identifiers, 'criticals', len(c.criticals))
        print('truth: p1 on P is', sups[1].procs['app:p1'].state)

main()
