from core import Core
from supvisors.ttypes import SupvisorsStates as S, SupvisorsInstanceStates as IS, StartingStrategies, DistributionRules
import traceback
c = Core(2)
ids = list(c.mapper.instances)
for i in ids:
    c.context.instances[i]._state = IS.RUNNING
    c.mapper.nodes.setdefault('m1', []).append(i)
    class LV: machine_id='m1'
    c.mapper.instances[i].local_view = LV
def info(group, name, state=0):
    return {'group':group,'name':name,'state':state,'statename':'STOPPED','start':0,'stop':0,'now':100,'pid':0,'description':'','spawnerr':'','expected':True,
            'now_monotonic':50.0,'start_monotonic':0.0,'stop_monotonic':0.0,'startsecs':1,'stopwaitsecs':1,'extra_args':'','disabled':False,'program_name':name,'process_index':0}
c.context.load_processes(c.context.instances[ids[0]], [info('app','p1')], check_state=False)
c.context.load_processes(c.context.instances[ids[1]], [info('app','p2')], check_state=False)
app = c.context.applications['app']; app.rules.managed = True; app.rules.start_sequence = 1
app.rules.distribution = DistributionRules.SINGLE_NODE
for n in ('p1','p2'):
    app.processes[n].rules.start_sequence = 1; app.processes[n].rules.expected_load = 10
app.update_sequences(); app.update()
print('possible_node_identifiers', app.possible_node_identifiers())
try:
    c.starter.start_application(StartingStrategies.CONFIG, app)
    print([m for m in c.rpc_handler.out if m[0].startswith('send_start')])
except Exception as e:
    traceback.print_exc()
