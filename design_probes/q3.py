from core import Core
from supvisors.ttypes import SupvisorsStates as S, SupvisorsInstanceStates as IS, StartingStrategies
c = Core(2)
ids = list(c.mapper.instances)
for i in ids:
    c.context.instances[i]._state = IS.RUNNING
    c.mapper.nodes.setdefault('m'+i, []).append(i)
    class LV: machine_id='m'+i
    c.mapper.instances[i].local_view = LV
def info(group, name, state=0):
    return {'group':group,'name':name,'state':state,'statename':'STOPPED','start':0,'stop':0,'now':100,'pid':0,'description':'','spawnerr':'','expected':True,
            'now_monotonic':50.0,'start_monotonic':0.0,'stop_monotonic':0.0,'startsecs':1,'stopwaitsecs':1,'extra_args':'','disabled':False,'program_name':name,'process_index':0}
for i in ids:
    c.context.load_processes(c.context.instances[i], [info('app1','p1'), info('app2','p2')], check_state=False)
for an, pn in (('app1','p1'),('app2','p2')):
    app = c.context.applications[an]; app.rules.managed = True; app.rules.start_sequence = 1
    p = app.processes[pn]; p.rules.start_sequence = 1; p.rules.expected_load = 60
    app.update_sequences(); app.update()
c.starter.start_applications()
print([m for m in c.rpc_handler.out if m[0]=='send_start_process'])
