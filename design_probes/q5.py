from cluster import *
from unittest.mock import patch
net = Net()
cores = [ClusterCore(net, i, 2, {'synchro_options': 'LIST'}) for i in range(2)]
for c in cores:
    net.cores[c.ident] = c; net.alive[c.ident] = True
def drain():
    progress = True
    while progress:
        progress = False
        for c2 in cores:
            if net.alive[c2.ident]: c2.pump()
        for key in net.pending():
            net.deliver(key); progress = True
        for c2 in cores:
            if net.alive[c2.ident] and any(p.inbox for p in c2.rpc_handler.proxy_server.proxies.values()): progress = True
with patch('socket.getfqdn', return_value='x'), patch('socket.gethostbyaddr', side_effect=lambda x: (x, [], [x])):
    for r in range(5):
        for c in cores:
            if net.alive[c.ident]: c.tick(); drain()
    print('nodes@0 before', cores[0].mapper.nodes, cores[0].fsm.state.name)
    # restart instance 1 (fresh core, same identity)
    net.alive[cores[1].ident] = False
    for r in range(5):
        cores[0].tick(); drain()
    print('after loss', cores[0].context.instances[cores[1].ident].state.name, cores[0].fsm.state.name)
    cores[1] = ClusterCore(net, 1, 2, {'synchro_options': 'LIST'})
    net.cores[cores[1].ident] = cores[1]; net.alive[cores[1].ident] = True
    for r in range(6):
        for c in cores:
            c.tick(); drain()
    print('nodes@0 after re-handshake', cores[0].mapper.nodes, [c.fsm.state.name for c in cores], [c.state_modes.master_identifier for c in cores])
    print('criticals', [c.criticals[:1] for c in cores])
