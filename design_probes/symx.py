"""prototype: minimal symbolic executor over real Python code using z3 proxies + DFS path exploration"""
import z3, time

class Unreachable(BaseException):
    pass

class Engine:
    cur = None
    def __init__(self):
        self.solver = z3.Solver()
        self.prefix = []      # list of [choice, alt_open]
        self.pos = 0
        self.paths = 0
        self.checks = 0
        self.nvars = 0
    def fresh_int(self, name, lo=None, hi=None, domain=None):
        v = z3.Int(name)
        if domain is not None:
            self.assume_expr(z3.Or([v == d for d in domain]))
        else:
            if lo is not None: self.assume_expr(v >= lo)
            if hi is not None: self.assume_expr(v <= hi)
        return SymInt(v)
    def fresh_bool(self, name):
        return SymBool(z3.Bool(name))
    def assume_expr(self, e):
        self.solver.add(e)
    def assume(self, c):
        if isinstance(c, SymBool):
            self.solver.add(c.e)
            self.checks += 1
            if self.solver.check() != z3.sat:
                raise Unreachable()
        elif not c:
            raise Unreachable()
    def branch(self, cond):
        if self.pos < len(self.prefix):
            choice = self.prefix[self.pos][0]
            self.pos += 1
            self.solver.push()
            c = cond if choice else z3.Not(cond)
            self.solver.add(c)
            if getattr(self, 'pc_log', None) is not None: self.pc_log.append(c)
            return choice
        # new decision
        self.solver.push(); self.solver.add(cond); self.checks += 1
        t_ok = self.solver.check() == z3.sat
        self.solver.pop()
        self.solver.push(); self.solver.add(z3.Not(cond)); self.checks += 1
        f_ok = self.solver.check() == z3.sat
        self.solver.pop()
        if t_ok and f_ok:
            self.prefix.append([True, True, None]); choice = True
        elif t_ok:
            self.prefix.append([True, False, None]); choice = True
        elif f_ok:
            self.prefix.append([False, False, None]); choice = False
        else:
            raise Unreachable()
        self.pos += 1
        self.solver.push()
        c = cond if choice else z3.Not(cond)
        self.solver.add(c)
        if getattr(self, 'pc_log', None) is not None: self.pc_log.append(c)
        return choice
    def concretize(self, e):
        while True:
            if self.pos < len(self.prefix):
                v = self.prefix[self.pos][2]
            else:
                self.checks += 1
                assert self.solver.check() == z3.sat
                v = self.solver.model().eval(e, model_completion=True)
            p = self.pos
            r = self.branch(e == v)
            self.prefix[p][2] = v
            if r:
                return v.as_long()
    def explore(self, fn):
        """fn(engine) is run once per path; returns list of (result, model)"""
        Engine.cur = self
        results = []
        while True:
            self.pos = 0
            self.solver.push()  # base frame for assumptions of this run
            depth0 = self.solver.num_scopes()
            try:
                r = fn(self)
                self.paths += 1
                results.append(r)
            except Unreachable:
                pass
            # pop everything of this run
            while self.solver.num_scopes() >= depth0:
                self.solver.pop()
            # backtrack
            while self.prefix and not self.prefix[-1][1]:
                self.prefix.pop()
            if not self.prefix:
                break
            self.prefix[-1] = [not self.prefix[-1][0], False, self.prefix[-1][2]]
        return results

def _e(x):
    if isinstance(x, (SymInt, SymBool)): return x.e
    if isinstance(x, bool): return z3.BoolVal(x)
    if isinstance(x, int): return z3.IntVal(x)
    return None

class SymBool:
    __slots__ = ('e',)
    def __init__(self, e): self.e = e
    def __bool__(self): return Engine.cur.branch(self.e)
    def __eq__(self, o):
        oe = _e(o)
        return SymBool(self.e == oe) if oe is not None else False
    def __hash__(self): return hash(bool(self))
    def __invert__(self): return SymBool(z3.Not(self.e))
    def __or__(self, o):
        oe = _e(o)
        return SymBool(z3.Or(self.e, oe)) if oe is not None else NotImplemented
    __ror__ = __or__
    def __and__(self, o):
        oe = _e(o)
        return SymBool(z3.And(self.e, oe)) if oe is not None else NotImplemented
    __rand__ = __and__

class SymInt:
    __slots__ = ('e',)
    def __init__(self, e): self.e = e
    def _bin(self, o, f, cls):
        oe = _e(o)
        if oe is None: return NotImplemented
        return cls(f(self.e, oe))
    def __eq__(self, o):
        oe = _e(o)
        if oe is None: return False
        return SymBool(self.e == oe)
    def __ne__(self, o):
        oe = _e(o)
        if oe is None: return True
        return SymBool(self.e != oe)
    def __lt__(self, o): return self._bin(o, lambda a, b: a < b, SymBool)
    def __le__(self, o): return self._bin(o, lambda a, b: a <= b, SymBool)
    def __gt__(self, o): return self._bin(o, lambda a, b: a > b, SymBool)
    def __ge__(self, o): return self._bin(o, lambda a, b: a >= b, SymBool)
    def __add__(self, o): return self._bin(o, lambda a, b: a + b, SymInt)
    __radd__ = __add__
    def __sub__(self, o): return self._bin(o, lambda a, b: a - b, SymInt)
    def __rsub__(self, o): return self._bin(o, lambda a, b: b - a, SymInt)
    def __hash__(self): return hash(Engine.cur.concretize(self.e))
    def __index__(self): return Engine.cur.concretize(self.e)
    def __int__(self): return Engine.cur.concretize(self.e)
    def __bool__(self): return Engine.cur.branch(self.e != 0)
    def __repr__(self): return f'SymInt({self.e})'
    def __format__(self, spec): return f'<sym {self.e}>'

class SymEnum:
    """lazy symbolic member of an Enum class (index into list(cls))"""
    __slots__ = ('cls', 'members', 'e', '_conc')
    def __init__(self, cls, e, members=None):
        self.cls = cls; self.members = members or list(cls); self.e = e; self._conc = None
    def conc(self):
        return self.members[Engine.cur.concretize(self.e)]
    def __eq__(self, o):
        if isinstance(o, SymEnum):
            if o.members is self.members or o.members == self.members:
                return SymBool(self.e == o.e)
            return self.conc() == o.conc()
        if o in self.members:
            return SymBool(self.e == self.members.index(o))
        return False
    def __ne__(self, o):
        r = self.__eq__(o)
        return SymBool(z3.Not(r.e)) if isinstance(r, SymBool) else (not r)
    def __hash__(self): return hash(self.conc())
    def __bool__(self): return bool(self.conc())
    def __str__(self): return str(self.conc())
    def __format__(self, spec): return format(self.conc(), spec)
    @property
    def name(self): return self.conc().name
    @property
    def value(self): return self.conc().value
    def __repr__(self): return f'SymEnum({self.cls.__name__},{self.e})'

def fresh_enum(eng, name, cls, members=None):
    members = members or list(cls)
    v = z3.Int(name)
    eng.assume_expr(z3.And(v >= 0, v < len(members)))
    return SymEnum(cls, v, members)

# ---- function-level path merging (summaries) ----
class SymSet:
    """symbolic subset of a concrete universe"""
    def __init__(self, mem):  # mem: dict elem -> z3 Bool
        self.mem = mem
    def __eq__(self, o):
        if isinstance(o, SymSet):
            keys = set(self.mem) | set(o.mem)
            return SymBool(z3.And([self.mem.get(k, z3.BoolVal(False)) == o.mem.get(k, z3.BoolVal(False)) for k in keys]))
        if isinstance(o, (set, frozenset)):
            keys = set(self.mem) | set(o)
            return SymBool(z3.And([self.mem.get(k, z3.BoolVal(False)) == z3.BoolVal(k in o) for k in keys]))
        return False
    def __ne__(self, o):
        r = self.__eq__(o); return SymBool(z3.Not(r.e)) if isinstance(r, SymBool) else True
    __hash__ = None
    def __contains__(self, k):
        if k in self.mem: return Engine.cur.branch(z3.simplify(self.mem[k]))
        return False
    def conc(self):
        return {k for k, m in self.mem.items() if Engine.cur.branch(m)}
    def __iter__(self): return iter(self.conc())
    def __len__(self): return len(self.conc())
    def __bool__(self): return Engine.cur.branch(z3.Or(list(self.mem.values())))
    def copy(self): return SymSet(dict(self.mem))
    def discard(self, k): self.mem.pop(k, None)
    def __repr__(self): return f'SymSet({self.mem})'

def merged_call(eng, fn, *args):
    saved_prefix, saved_pos = eng.prefix, eng.pos
    base = eng.solver.num_scopes()
    saved_log = getattr(eng, 'pc_log', None)
    outcomes = []
    sub = []
    while True:
        eng.prefix, eng.pos, eng.pc_log = sub, 0, []
        try:
            r = fn(*args)
            outcomes.append((z3.And(eng.pc_log) if eng.pc_log else z3.BoolVal(True), r))
        except Unreachable:
            pass
        while eng.solver.num_scopes() > base:
            eng.solver.pop()
        while sub and not sub[-1][1]:
            sub.pop()
        if not sub:
            break
        sub[-1] = [not sub[-1][0], False, sub[-1][2]]
    eng.prefix, eng.pos, eng.pc_log = saved_prefix, saved_pos, saved_log
    eng.merged_paths = getattr(eng, 'merged_paths', 0) + len(outcomes)
    return merge_outcomes(outcomes)

def merge_outcomes(outcomes):
    rs = [r for _, r in outcomes]
    if all(isinstance(r, bool) for r in rs):
        return SymBool(z3.simplify(z3.Or([pc for pc, r in outcomes if r])))
    if all(isinstance(r, (set, frozenset)) for r in rs):
        uni = set().union(*rs)
        return SymSet({k: z3.simplify(z3.Or([pc for pc, r in outcomes if k in r])) for k in uni})
    raise TypeError(f'cannot merge {set(type(r) for r in rs)}')
