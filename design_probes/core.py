"""probe: assemble a real Supvisors core (no sockets/threads) for symbolic driving"""
import socket, uuid, sys
from unittest.mock import patch
from collections import OrderedDict

class NullLogger:
    level = 100
    handlers = []
    def __getattr__(self, name):
        return lambda *a, **k: None

class RecRpc:
    def __init__(self): self.out = []
    def __getattr__(self, name):
        if name.startswith('send_') or name.startswith('push_'):
            return lambda *a, **k: self.out.append((name, a))
        raise AttributeError(name)

class SupData:
    identifier = 'supervisor'
    server_port = 25000
    def update_extra_args(self, *a): raise KeyError
    def autorestart(self, ns): raise KeyError
    def get_env(self): return {}

class DummySupervisord:
    class options:
        here = '.'
        environ_expansions = {}

def _gethostbyaddr(x):
    ident = x.split('.')[-1]
    return f'supv0{ident}.bzh', [f'cliche0{ident}', f'supv0{ident}'], [x]

_patches = [patch('socket.gethostname', return_value='supv01.bzh'),
            patch('socket.getfqdn', return_value='supv01.bzh'),
            patch('socket.gethostbyaddr', side_effect=_gethostbyaddr),
            patch('socket.if_nameindex', return_value=[(1, 'lo'), (2, 'eth0')]),
            patch('uuid.getnode', return_value=1250999896491),
            patch('supvisors.internal_com.mapper.get_interface_info',
                  side_effect=lambda x: {'lo': ('127.0.0.1', '255.0.0.0'), 'eth0': ('10.0.0.1', '255.255.255.0')}[x])]

class Core:
    def __init__(self, n=3, config=None):
        from supvisors.options import SupvisorsOptions
        from supvisors.internal_com.mapper import SupvisorsMapper
        from supvisors.statemodes import SupvisorsStateModes
        from supvisors.context import Context
        from supvisors.commander import Starter, Stopper, StarterModel
        from supvisors.strategy import RunningFailureHandler
        from supvisors.statemachine import FiniteStateMachine
        from supvisors.listener import SupervisorListener
        for p in _patches: p.start()
        try:
            self.logger = NullLogger()
            self.options = SupvisorsOptions(DummySupervisord, self.logger, **(config or {}))
            self.supervisor_data = SupData()
            self.mapper = SupvisorsMapper(self)
            ids = [f'10.0.0.{i+1}' for i in range(n)]
            self.mapper.configure(ids, set(), [])
            self.stats_collector = None
            self.external_publisher = None
            self.discovery_handler = None
            self.parser = None
            self.state_modes = SupvisorsStateModes(self)
            self.context = Context(self)
            self.starter = Starter(self)
            self.stopper = Stopper(self)
            self.starter_model = StarterModel(self)
            self.failure_handler = RunningFailureHandler(self)
            self.listener = SupervisorListener(self)
            self.fsm = FiniteStateMachine(self)
            self.rpc_handler = RecRpc()
        finally:
            for p in _patches: p.stop()

if __name__ == '__main__':
    import time
    t=time.time()
    c = Core(3, {'synchro_options': 'LIST,TIMEOUT'})
    print('built in', time.time()-t, list(c.mapper.instances), c.mapper.local_identifier, c.fsm.state)
    c.listener.counter = 0
    from supervisor.events import Tick5Event
    for k in range(3):
        c.listener.on_tick(Tick5Event(1000+5*k, None))
        print(c.fsm.state, c.context.local_status.state, c.rpc_handler.out[-3:])
