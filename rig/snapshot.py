"""Observable state of one instance, taken through the real RPCInterface (what a user can see)."""
VOLATILE = ('now', 'now_monotonic', 'remote_time', 'local_time', 'remote_mtime', 'local_mtime', 'description',
            'remote_sequence_counter', 'local_sequence_counter')


def _strip(x):
    if isinstance(x, dict):
        return {k: _strip(v) for k, v in x.items() if k not in VOLATILE}
    if isinstance(x, (list, tuple)):
        return [_strip(v) for v in x]
    return x


TIMES = ('event_time', 'local_mtime', 'start', 'stop', 'start_monotonic', 'stop_monotonic', 'uptime',
         'last_event_mtime', 'checking_time')


def _strip_keys(x, keys):
    if isinstance(x, dict):
        return {k: _strip_keys(v, keys) for k, v in x.items() if k not in keys}
    if isinstance(x, (list, tuple)):
        return [_strip_keys(v, keys) for v in x]
    return x


def take(core, volatile=False, times=True):
    rpc = core.rpc_intf
    snap = {
        'state': rpc.get_supvisors_state(),
        'master': rpc.get_master_identifier(),
        'instances': rpc.get_all_instances_info(),
        'applications': sorted(({k: v for k, v in a.serial().items()} for a in core.context.applications.values()),
                               key=lambda d: d['application_name']),
        'processes': sorted((p.serial() for a in core.context.applications.values() for p in a.processes.values()),
                            key=lambda d: (d['application_name'], d['process_name'])),
        'inner': {i: sorted(({k: v for k, v in info.items()} for info in rpc.get_all_inner_process_info(i)),
                            key=lambda d: (d['group'], d['name'])) for i in core.ids},
        'rules': {p.namespec: dict(p.rules.serial()) for a in core.context.applications.values()
                  for p in a.processes.values()},
        'app_rules': {a.application_name: dict(a.rules.serial()) for a in core.context.applications.values()},
        'jobs': {'starting': core.starter.in_progress(), 'stopping': core.stopper.in_progress()},
        'forced': {p.namespec: (p.forced_state, p.forced_reason) for a in core.context.applications.values()
                   for p in a.processes.values()},
    }
    snap = snap if volatile else _strip(snap)
    return snap if times else _strip_keys(snap, TIMES)


def diff(a, b, path=''):
    """first difference between two snapshots, or None"""
    if a is b:
        return None
    if isinstance(a, dict) and isinstance(b, dict):
        for k in sorted(set(a) | set(b), key=str):
            if k not in a or k not in b:
                return f'{path}/{k}: only on one side'
            d = diff(a[k], b[k], f'{path}/{k}')
            if d:
                return d
        return None
    if isinstance(a, list) and isinstance(b, list):
        if len(a) != len(b):
            return f'{path}: length {len(a)} != {len(b)}'
        for i, (x, y) in enumerate(zip(a, b)):
            d = diff(x, y, f'{path}[{i}]')
            if d:
                return d
        return None
    same = a == b
    return None if same else f'{path}: {a!r} != {b!r}'
