"""rig.cluster - N real Supvisors instances wired through an in-memory network (no thread, no socket).

Real per instance: everything of rig.core plus RpcHandler / SupervisorProxyServer with `klass` replaced by a
thread-less subclass of the real SupervisorProxy (publish with its has_active_state filter, check_instance,
_is_authorized, xml_rpc error mapping, handle_exception are the real code).  In-memory: the XML-RPC ServerProxy
(calls the target's real RPCInterface synchronously, or raises ConnectionRefusedError when the target is dead or
partitioned), FIFO channels per (sender, receiver) delivering through the real on_remote_event, a fake supervisord
per instance.

Abstractions (part of every cluster claim): the XML-RPCs of one check_instance are atomic with respect to the
target's main loop; a proxy thread is a FIFO task; a Supervisor restart is a fresh instance with the same identity.
"""
import json
from collections import deque

from . import stubs
from .stubs import RecLogger, DummySupervisord, set_local
from .core import Core, FakeSupervisorData, IPS, PORT, NODE0, process_info

from supervisor import events
from supervisor.states import ProcessStates as PS


class RemoteCommEvent:
    def __init__(self, type_, data):
        self.type, self.data = type_, data


class Net:
    def __init__(self):
        self.cores = {}
        self.chan = {}          # (src, dst) -> deque of (event type, json text)
        self.alive = {}
        self.cut = set()        # frozenset({a, b}) partitioned pairs
        self.glitch = {}        # (src, dst) -> number of XML-RPCs from src to dst that fail next (transient fault)
        self.eager = False      # a proxy thread asked to check an instance is scheduled at once
        self.sent = []          # (src, dst, event type, header) of everything put on a channel
        self.orders = []        # (identifier, supervisor order)

    def reachable(self, a, b):
        return self.alive.get(a, False) and self.alive.get(b, False) and frozenset((a, b)) not in self.cut

    def send(self, src, dst, etype, text):
        self.chan.setdefault((src, dst), deque()).append((etype, text))
        try:
            self.sent.append((src, dst, etype, json.loads(text)[1][0]))
        except Exception:
            self.sent.append((src, dst, etype, None))

    def pending(self):
        return [k for k, q in self.chan.items() if q]

    def deliver(self, key):
        src, dst = key
        etype, text = self.chan[key].popleft()
        if self.alive.get(dst):
            self.cores[dst].listener.on_remote_event(RemoteCommEvent(etype, text))

    def drop_channels_of(self, ident):
        for key in list(self.chan):
            if ident in key:
                self.chan[key].clear()


class FakeRemote:
    """stands for the xmlrpc ServerProxy to `target`"""
    def __init__(self, net, src, target):
        self.net, self.src, self.target = net, src, target
        outer = self

        class Namespace:
            def __init__(self, which):
                self.which = which

            def __getattr__(self, name):
                def call(*args):
                    if not outer.net.reachable(outer.src, outer.target):
                        raise ConnectionRefusedError('unreachable')
                    if outer.net.glitch.get((outer.src, outer.target)):
                        outer.net.glitch[(outer.src, outer.target)] -= 1
                        raise ConnectionResetError('transient fault')
                    core = outer.net.cores[outer.target]
                    if self.which == 'supvisors':
                        result = getattr(core.rpc_intf, name)(*args)
                        return json.loads(json.dumps(result))
                    if name == 'sendRemoteCommEvent':
                        outer.net.send(outer.src, outer.target, args[0], args[1])
                        return True
                    if name in ('restart', 'shutdown'):
                        outer.net.orders.append((outer.target, name))
                        core.orders.append(name)
                        return True
                    return getattr(core.supervisor_data.supervisor_rpc_interface, name)(*args)
                return call
        self.supvisors = Namespace('supvisors')
        self.supervisor = Namespace('supervisor')


def make_proxy_class():
    import supvisors.internal_com.supervisorproxy as SP

    class ThreadlessProxy(SP.SupervisorProxy):
        """the real SupervisorProxy logic; the thread is replaced by an inbox drained by the scheduler"""
        def __init__(self, status, supvisors):
            super().__init__(status, supvisors)
            self.inbox = deque()
            self.stopped = False

        def start(self):
            pass

        def stop(self):
            self.stopped = True

        def join(self):
            self.supvisors.rpc_handler.proxy_server.on_proxy_closing(self.status.identifier)

        def _get_proxy(self):
            return FakeRemote(self.supvisors.net, self.supvisors.mapper.local_identifier, self.status.identifier)

        def push_message(self, message):
            self.inbox.append(message)
            if self.supvisors.net.eager and not getattr(self, 'busy', False) and len(self.inbox) == 1:
                try:
                    kind, (_, body) = message
                    check = kind == SP.InternalEventHeaders.REQUEST and body[0] == 0       # CHECK_INSTANCE
                except Exception:
                    check = False
                if check:
                    # the (idle) proxy thread runs as soon as the request is queued, before the caller goes on
                    self.busy = True
                    try:
                        self.step()
                    finally:
                        self.busy = False

        handle_exception = SP.SupervisorProxyThread.handle_exception
        process_event = SP.SupervisorProxyThread.process_event

        def step(self):
            if self.inbox:
                self.process_event(self.inbox.popleft())
                return True
            return False
    return ThreadlessProxy


class FakeProcess:
    def __init__(self, group, name, data):
        self.config = type('C', (), {'name': name})()
        self.group = type('G', (), {'config': type('C', (), {'name': group})()})()
        self.pid = 0
        self.backoff = 0
        self.spawnerr = ''
        self.extra_args = ''
        self.supvisors_config = type('S', (), {'program_config': type('P', (), {'disabled': False})()})()


class FakeSupervisord(FakeSupervisorData):
    """process table with the Supervisor life cycle; produces real ProcessStateEvent objects for the real listener"""
    EVENTS = {PS.STARTING: events.ProcessStateStartingEvent, PS.RUNNING: events.ProcessStateRunningEvent,
              PS.STOPPING: events.ProcessStateStoppingEvent, PS.STOPPED: events.ProcessStateStoppedEvent,
              PS.EXITED: events.ProcessStateExitedEvent, PS.FATAL: events.ProcessStateFatalEvent,
              PS.BACKOFF: events.ProcessStateBackoffEvent}

    def __init__(self, core, port=PORT):
        super().__init__(port)
        self.core = core
        self.procs = {}
        rpc = self.supervisor_rpc_interface
        rpc.startProcess = self.start_process
        rpc.stopProcess = self.stop_process

    def declare(self, group, name, **kw):
        ns = f'{group}:{name}'
        info = process_info(group, name, PS.STOPPED, now=stubs.CLOCK[0].t, **kw)
        self.table[ns] = info
        self.config[ns] = {k: info[k] for k in ('start_monotonic', 'stop_monotonic', 'now_monotonic', 'extra_args',
                                                 'startsecs', 'stopwaitsecs', 'process_index', 'program_name',
                                                 'disabled', 'has_stdout', 'has_stderr')}
        self.procs[ns] = FakeProcess(group, name, self)

    def set_state(self, ns, state, expected=True, publish=True):
        """the local supervisord changes the state of a process (and tells its listeners)"""
        info = self.table[ns]
        now = stubs.CLOCK[0].monotonic()
        info.update(state=state, now=now, now_monotonic=now)
        from supervisor.states import getProcessStateDescription
        info['statename'] = getProcessStateDescription(state)
        if state in (PS.STARTING, PS.BACKOFF):
            info['start'] = info['start_monotonic'] = now
            self.config[ns]['start_monotonic'] = now
        if state in (PS.STOPPED, PS.EXITED):
            info['stop'] = info['stop_monotonic'] = now
            self.config[ns]['stop_monotonic'] = now
        info['pid'] = 4000 if state in (PS.STARTING, PS.RUNNING, PS.STOPPING) else 0
        proc = self.procs[ns]
        proc.pid = info['pid']
        if publish:
            cls = self.EVENTS[state]
            if state == PS.EXITED:
                ev = cls(proc, None, expected)
            else:
                ev = cls(proc, None)
                ev.expected = expected
            self.core.listener.on_process_state(ev)

    def start_process(self, namespec, wait=True):
        from supervisor.xmlrpc import RPCError, Faults
        self.orders.append(('startProcess', namespec))
        if namespec not in self.table:
            raise RPCError(Faults.BAD_NAME, namespec)
        if self.table[namespec]['state'] in (PS.STARTING, PS.RUNNING, PS.BACKOFF):
            raise RPCError(Faults.ALREADY_STARTED, namespec)
        self.core.todo.append(('started', namespec))
        return True

    def stop_process(self, namespec, wait=True):
        from supervisor.xmlrpc import RPCError, Faults
        self.orders.append(('stopProcess', namespec))
        if namespec not in self.table:
            raise RPCError(Faults.BAD_NAME, namespec)
        if self.table[namespec]['state'] not in (PS.STARTING, PS.RUNNING, PS.BACKOFF):
            raise RPCError(Faults.NOT_RUNNING, namespec)
        self.core.todo.append(('stopped', namespec))
        return True

    def running(self):
        return {ns for ns, i in self.table.items() if i['state'] in (PS.STARTING, PS.RUNNING, PS.BACKOFF)}


class ClusterCore(Core):
    def __init__(self, net, idx, n, config=None, programs=()):
        self.net = net
        self.orders = []
        self.todo = deque()        # work of the local supervisord (process transitions to perform)
        from supvisors.internal_com.rpchandler import RpcHandler
        super().__init__(n, idx, config)
        self.supervisor_data = FakeSupervisord(self)
        self.supervisor_data.supvisors_rpc_interface = self.rpc_intf
        self.rpc_handler = RpcHandler(self)
        self.rpc_handler.proxy_server.klass = make_proxy_class()
        self.ident = self.local_identifier
        for group, name in programs:
            self.supervisor_data.declare(group, name)

    def proxies(self):
        return self.rpc_handler.proxy_server.proxies

    def supervisord_step(self):
        """the local supervisord performs one pending process transition"""
        if not self.todo:
            return False
        what, ns = self.todo.popleft()
        sd = self.supervisor_data
        if what == 'started':
            sd.set_state(ns, PS.STARTING)
            sd.set_state(ns, PS.RUNNING)
        elif what == 'stopped':
            sd.set_state(ns, PS.STOPPING)
            sd.set_state(ns, PS.STOPPED)
        return True


def memory_parser(core, document):
    """the real supvisors Parser over an in-memory rules document (file reading and XSD validation stay outside)"""
    import xml.etree.ElementTree as ET
    import supvisors.sparser as SP
    real_parse = SP.Parser.parse
    SP.Parser.parse = lambda self, filename: ET.ElementTree(ET.fromstring(document))
    try:
        core.options.rules_files = ['rules.xml']
        return SP.Parser(core)
    finally:
        SP.Parser.parse = real_parse


class Cluster:
    def __init__(self, n=2, config=None, programs=None, rules=None):
        """programs: {instance index: [(group, name), ...]}; rules: text of a rules file shared by all instances"""
        self.n = n
        self.config = config or {'synchro_options': 'LIST'}
        self.programs = programs or {}
        self.rules = rules
        self.net = Net()
        self.stalled = set()       # (sender identifier, peer identifier): that proxy thread is stuck (slow XML-RPC)
        self.cores = []
        for i in range(n):
            self.cores.append(self._build(i))

    def _build(self, i):
        c = ClusterCore(self.net, i, self.n, self.config, self.programs.get(i, ()))
        if self.rules:
            c.parser = memory_parser(c, self.rules)
        self.net.cores[c.ident] = c
        self.net.alive[c.ident] = True
        return c

    # --- faults
    def crash(self, i):
        c = self.cores[i]
        self.net.alive[c.ident] = False
        self.net.drop_channels_of(c.ident)

    def restart(self, i):
        """fresh instance with the same identity (its supervisord lost its processes)"""
        old = self.cores[i]
        self.net.drop_channels_of(old.ident)
        self.cores[i] = self._build(i)

    def glitch(self, i, j, count=1):
        """the next `count` XML-RPCs of instance i to instance j fail (transport error), everything else goes through"""
        key = (self.cores[i].ident, self.cores[j].ident)
        self.net.glitch[key] = self.net.glitch.get(key, 0) + count

    def stall(self, i, j):
        """the proxy thread of instance i towards instance j is stuck: what i publishes to j queues up"""
        self.stalled.add((self.cores[i].ident, self.cores[j].ident))

    def unstall(self, i, j):
        self.stalled.discard((self.cores[i].ident, self.cores[j].ident))

    def partition(self, i, j):
        self.net.cut.add(frozenset((self.cores[i].ident, self.cores[j].ident)))

    def heal(self, i, j):
        self.net.cut.discard(frozenset((self.cores[i].ident, self.cores[j].ident)))

    # --- scheduling
    def live(self):
        return [c for c in self.cores if self.net.alive[c.ident]]

    def tasks(self):
        """every task that can run now: ('proxy', core, peer identifier) / ('chan', key) / ('supervisord', core)"""
        out = []
        for c in self.live():
            for pid, proxy in list(c.proxies().items()):
                if proxy.inbox and (c.ident, pid) not in self.stalled:
                    out.append(('proxy', c, pid))
            if c.todo:
                out.append(('supervisord', c, None))
        for key in self.net.pending():
            out.append(('chan', key, None))
        return out

    def run_task(self, task):
        kind, a, b = task
        if kind == 'proxy':
            proxy = a.proxies().get(b)
            if proxy:
                proxy.step()
        elif kind == 'chan':
            self.net.deliver(a)
        else:
            a.supervisord_step()

    def drain(self, hold=None, limit=2000):
        """run tasks FIFO until quiescence; `hold(task)` may keep a task (and what is behind it) for later"""
        held = set()
        for _ in range(limit):
            progress = False
            for task in self.tasks():
                key = (task[0], task[1].ident if task[0] != 'chan' else task[1], task[2])
                if key in held:
                    continue
                if hold is not None and hold(task):
                    held.add(key)
                    continue
                self.run_task(task)
                progress = True
                break
            if not progress:
                return
        raise RuntimeError('cluster does not quiesce')

    def round(self, hold=None, order=None):
        """one tick period: each live instance ticks once (in index order or `order`), tasks drained after each"""
        for i in (order or range(self.n)):
            c = self.cores[i]
            if self.net.alive[c.ident]:
                c.tick()
                self.drain(hold)

    def criticals(self):
        return [m for c in self.cores for m in c.logger.tracebacks()]
