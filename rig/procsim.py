"""Fake supervisords for single-instance harnesses: turns the start / stop requests recorded at the rpc boundary
into the process events the targeted Supervisor would publish, under the control of the scenario."""
from supervisor.states import ProcessStates as PS


class Sim:
    def __init__(self, core):
        self.core = core
        self.cursor = 0
        self.log = []          # every request seen, in order: (kind, identifier, namespec)

    def new_requests(self):
        out = []
        rec = self.core.rpc_handler.out
        while self.cursor < len(rec):
            name, args = rec[self.cursor]
            self.cursor += 1
            if name == 'send_start_process':
                out.append(('start', args[0], args[1]))
            elif name == 'send_stop_process':
                out.append(('stop', args[0], args[1]))
        self.log.extend(out)
        return out

    def event(self, identifier, namespec, state, expected=True, spawnerr=''):
        group, name = namespec.split(':')
        self.core.process_event(identifier, group, name, state, expected=expected, spawnerr=spawnerr)

    def ack_stop(self, identifier, namespec, upto='STOPPED'):
        self.event(identifier, namespec, PS.STOPPING)
        if upto == 'STOPPED':
            self.event(identifier, namespec, PS.STOPPED)

    def ack_start(self, identifier, namespec, behaviour='ok'):
        """behaviour: ok | exit_expected | exit_unexpected | backoff_fatal | fatal | starting_only | silent"""
        if behaviour == 'silent':
            return
        if behaviour == 'fatal':
            self.event(identifier, namespec, PS.FATAL, expected=False, spawnerr='bad command')
            return
        self.event(identifier, namespec, PS.STARTING)
        if behaviour == 'starting_only':
            return
        if behaviour == 'backoff_fatal':
            self.event(identifier, namespec, PS.BACKOFF, expected=False, spawnerr='exited too quickly')
            self.event(identifier, namespec, PS.FATAL, expected=False, spawnerr='exited too quickly')
            return
        self.event(identifier, namespec, PS.RUNNING)
        if behaviour == 'exit_expected':
            self.event(identifier, namespec, PS.EXITED, expected=True)
        elif behaviour == 'exit_unexpected':
            self.event(identifier, namespec, PS.EXITED, expected=False)
