"""rig.core - one real Supvisors instance assembled from the modules of $VERIF_REPO, without thread or socket.

Real: SupvisorsOptions, SupvisorsMapper, SupvisorsStateModes, Context, Starter, Stopper, StarterModel,
RunningFailureHandler, SupervisorListener, FiniteStateMachine, RPCInterface, statistics compilers.
Stubbed: logger, rpc_handler (recorder), supervisor_data (table driven), external publisher, statistics collector.
"""
from . import stubs
from .stubs import RecLogger, RecRpc, DummySupervisord, set_local

from supervisor.states import ProcessStates, RUNNING_STATES, STOPPED_STATES  # noqa: E402

IPS = ['10.0.0.1', '10.0.0.2', '10.0.0.3', '10.0.0.4', '10.0.0.5']
PORT = 25000
NODE0 = 1250999896491


def ident(i):
    return f'{IPS[i]}:{PORT}'


def machine_id(k):
    import re
    return ':'.join(re.findall('..', f'{NODE0 + k:012x}'))


class FakeSupervisorRpc:
    """stands for supervisor's own RPC interface of the local supervisord"""
    def __init__(self, data):
        self.data = data

    def getAllProcessInfo(self):
        return [dict(i) for i in self.data.table.values()]

    def getProcessInfo(self, namespec):
        from supervisor.xmlrpc import RPCError, Faults
        if namespec not in self.data.table:
            raise RPCError(Faults.BAD_NAME, namespec)
        return dict(self.data.table[namespec])

    def startProcess(self, namespec, wait=True):
        self.data.orders.append(('startProcess', namespec))
        return True

    def stopProcess(self, namespec, wait=True):
        self.data.orders.append(('stopProcess', namespec))
        return True


class FakeSupervisorData:
    """table-driven stand-in for SupervisorData (the glue to supervisord internals)"""
    identifier = 'supervisor'

    def __init__(self, port=PORT):
        self.server_port = port
        self.table = {}      # namespec -> supervisor-like info
        self.config = {}     # namespec -> supvisors-added info
        self.orders = []
        self.supervisor_rpc_interface = FakeSupervisorRpc(self)
        self.supvisors_rpc_interface = None

    def update_extra_args(self, namespec, args):
        if namespec not in self.table:
            raise KeyError(namespec)

    def autorestart(self, namespec):
        if namespec not in self.table:
            raise KeyError(namespec)
        return False

    def disable_autorestart(self, namespec):
        pass

    def get_env(self):
        return {'SUPERVISOR_SERVER_URL': f'http://localhost:{self.server_port}'}

    def update_start(self, namespec):
        pass

    def update_stop(self, namespec):
        pass

    def close_httpservers(self):
        pass

    def force_process_fatal(self, namespec, reason):
        self.orders.append(('force_fatal', namespec))

    def get_group_processes(self, group):
        return {ns.split(':')[1]: None for ns in self.table if ns.split(':')[0] == group}

    def get_process_info(self, namespec):
        return dict(self.config[namespec])


def process_info(group, name, state=ProcessStates.STOPPED, now=1000.0, start=0, stop=0, pid=0, spawnerr='',
                 startsecs=1, stopwaitsecs=10, disabled=False, program_name=None, process_index=0, extra_args='',
                 expected=None):
    """a process information payload as produced by RPCInterface._get_local_info on the sending instance"""
    from supervisor.states import getProcessStateDescription
    return {'name': name, 'group': group, 'state': state, 'statename': getProcessStateDescription(state)
            if isinstance(state, int) else '?',
            'start': start, 'stop': stop, 'now': now, 'pid': pid, 'description': '', 'spawnerr': spawnerr,
            'expected': (not spawnerr) if expected is None else expected,
            'start_monotonic': start, 'stop_monotonic': stop, 'now_monotonic': now, 'extra_args': extra_args,
            'startsecs': startsecs, 'stopwaitsecs': stopwaitsecs, 'process_index': process_index,
            'program_name': program_name or name, 'disabled': disabled, 'has_stdout': True, 'has_stderr': False}


class Core:
    """One real Supvisors instance. `n` instances are declared in supvisors_list; `idx` is the local one."""

    def __init__(self, n=3, idx=0, config=None, logger=None, rpc=None, core_list=None, nicks=None):
        from supvisors.options import SupvisorsOptions
        from supvisors.internal_com.mapper import SupvisorsMapper
        from supvisors.statemodes import SupvisorsStateModes
        from supvisors.context import Context
        from supvisors.commander import Starter, Stopper, StarterModel
        from supvisors.strategy import RunningFailureHandler
        from supvisors.statemachine import FiniteStateMachine
        from supvisors.listener import SupervisorListener
        from supvisors.rpcinterface import RPCInterface
        from supvisors.statscompiler import HostStatisticsCompiler, ProcStatisticsCompiler
        set_local(IPS[idx], NODE0 + idx)
        self.n = n
        self.idx = idx
        self.logger = logger or RecLogger()
        cfg = {'synchro_options': 'LIST'}
        cfg.update(config or {})
        self.options = SupvisorsOptions(DummySupervisord, self.logger, **cfg)
        self.supervisor_data = FakeSupervisorData(PORT)
        self.supervisor_updater = None
        self.mapper = SupvisorsMapper(self)
        items = [(f'<{nicks[i]}>{IPS[i]}' if nicks else IPS[i]) for i in range(n)]
        self.mapper.configure(items, set(), list(core_list or []))
        self.ids = list(self.mapper.instances.keys())
        self.local_identifier = self.mapper.local_identifier
        self.stats_collector = None
        self.external_publisher = None
        self.discovery_handler = None
        self.parser = None
        self.host_compiler = HostStatisticsCompiler(self)
        self.process_compiler = ProcStatisticsCompiler(self.options, self.logger)
        self.state_modes = SupvisorsStateModes(self)
        self.context = Context(self)
        self.starter = Starter(self)
        self.stopper = Stopper(self)
        self.starter_model = StarterModel(self)
        self.failure_handler = RunningFailureHandler(self)
        self.listener = SupervisorListener(self)
        self.fsm = FiniteStateMachine(self)
        self.rpc_handler = rpc or RecRpc()
        self.rpc_intf = RPCInterface(self)
        self.supervisor_data.supvisors_rpc_interface = self.rpc_intf
        self.listener.counter = 0

    # ------------------------------------------------------------------ construction of states through real APIs
    def identify(self, identifier, node=None):
        """real SupvisorsMapper.identify with the network payload the remote would publish"""
        i = self.ids.index(identifier)
        node = i if node is None else node
        ip = IPS[i]
        payload = {'identifier': identifier, 'nick_identifier': self.mapper.instances[identifier].nick_identifier,
                   'host_id': ip, 'http_port': PORT, 'stereotypes': [],
                   'network': {'machine_id': machine_id(node), 'fqdn': f'supv0{i + 1}.bzh',
                               'addresses': {'eth0': {'host_name': f'supv0{i + 1}.bzh', 'aliases': [],
                                                      'ipv4_addresses': [ip],
                                                      'nic_info': {'nic_name': 'eth0', 'ipv4_address': ip,
                                                                   'netmask': '255.255.255.0'}}}}}
        self.mapper.identify(payload)

    _PATH = None

    def set_instance_state(self, identifier, target):
        """bring an instance to `target` along allowed transitions, through the real setter"""
        from supvisors.ttypes import SupvisorsInstanceStates as S
        path = {S.STOPPED: [], S.CHECKING: [S.CHECKING], S.CHECKED: [S.CHECKING, S.CHECKED],
                S.RUNNING: [S.CHECKING, S.CHECKED, S.RUNNING],
                S.FAILED: [S.CHECKING, S.FAILED], S.ISOLATED: [S.CHECKING, S.ISOLATED]}[target]
        status = self.context.instances[identifier]
        for st in path:
            status.state = st
        return status

    def add_process(self, identifier, group, name, state=ProcessStates.STOPPED, **kw):
        """declare a process on an instance through the real Context.load_processes (PROCESS_ADDED path)"""
        status = self.context.instances[identifier]
        info = process_info(group, name, state, **kw)
        self.context.load_processes(status, [info], check_state=False)
        if identifier == self.local_identifier:
            ns = f'{group}:{name}'
            self.supervisor_data.table[ns] = dict(info)
            self.supervisor_data.config[ns] = {k: info[k] for k in
                                               ('start_monotonic', 'stop_monotonic', 'now_monotonic', 'extra_args',
                                                'startsecs', 'stopwaitsecs', 'process_index', 'program_name',
                                                'disabled', 'has_stdout', 'has_stderr')}
        return self.context.applications[group].processes[name]

    def process_event(self, identifier, group, name, state, expected=True, now=None, pid=1, spawnerr='',
                      extra_args=''):
        """deliver a process state event from `identifier` through the real FSM entry point"""
        status = self.context.instances[identifier]
        now = stubs.CLOCK[0].t if now is None else now
        payload = {'identifier': identifier, 'nick_identifier': status.nick_identifier, 'name': name, 'group': group,
                   'state': state, 'now': now, 'now_monotonic': now, 'pid': pid, 'expected': expected,
                   'spawnerr': spawnerr, 'extra_args': extra_args, 'disabled': False}
        self.fsm.on_process_state_event(status, payload)

    def finalize_rules(self):
        """what Context.load_processes does after loading: recompute the sequences and the application status"""
        for application in self.context.applications.values():
            application.rules.check_dependencies(application.application_name)
            for process in application.processes.values():
                process.rules.check_dependencies(process.namespec, False)
            application.update_sequences()
            application.update()

    def tick(self, when=None):
        from supervisor.events import Tick5Event
        stubs.CLOCK[0].advance(5)
        self.listener.on_tick(Tick5Event(stubs.CLOCK[0].t if when is None else when, None))

    def peer_tick(self, identifier, counter):
        status = self.context.instances[identifier]
        t = stubs.CLOCK[0].t
        self.fsm.on_tick_event(status, {'sequence_counter': counter, 'when': t + 1.7e9, 'when_monotonic': t})
