"""The few direct pokes into private state that harnesses need, in one place.  Every attribute is checked first:
a refactoring that renames one yields a HARNESS-ERROR (exit 2), never a VIOLATION."""
from symx.engine import HarnessError


def _need(obj, attr):
    if not hasattr(obj, attr):
        raise HarnessError(f'adapter: {type(obj).__name__}.{attr} no longer exists')


def plant_instance_state(core, identifier, state):
    """set the state of an instance as seen locally (possibly a lazy symbolic choice) without walking transitions"""
    status = core.context.instances[identifier]
    _need(status, '_state')
    status._state = state
    sm = core.state_modes.local_state_modes
    _need(sm, 'instance_states')
    sm.instance_states[identifier] = state


def plant_fsm_state(core, state):
    """put the local FSM in `state` with the matching state object, without running enter()"""
    fsm = core.fsm
    _need(fsm, '_StateInstances')
    _need(fsm, 'instance')
    sm = core.state_modes.local_state_modes
    _need(sm, 'state')
    sm.state = state
    fsm.instance = fsm._StateInstances[state](core)
    return fsm.instance


def plant_peer_state_modes(core, identifier, **kw):
    """what a peer last published (its StateModes as stored locally)"""
    sm = core.state_modes.instance_state_modes[identifier]
    for k, v in kw.items():
        _need(sm, k)
        setattr(sm, k, v)
    return sm


def set_rules(rules, **kw):
    for k, v in kw.items():
        _need(rules, k)
        setattr(rules, k, v)


def set_info(process, identifier, **kw):
    """plant fields of the per-instance information of a process (e.g. a symbolic uptime)"""
    _need(process, 'info_map')
    info = process.info_map[identifier]
    for k, v in kw.items():
        if k not in info:
            raise HarnessError(f'adapter: process information has no field {k}')
        info[k] = v
