"""Environment stubs shared by all harnesses (DESIGN.md 3.6).  Each stub is part of every claim that uses it."""
import functools
import os
import socket
import sys
import time
import uuid

REPO = os.environ.get('VERIF_REPO', '/repo')
if REPO not in sys.path:
    sys.path.insert(0, REPO)

_real_monotonic = time.monotonic
_real_time = time.time


class Clock:
    """harness clock: strictly increasing by `eps` per call; advanced explicitly by the harness"""
    def __init__(self, start=1000.0, eps=0.001):
        self.t = start
        self.eps = eps

    def monotonic(self):
        self.t = self.t + self.eps
        return self.t

    def time(self):
        self.t = self.t + self.eps
        return self.t + 1.7e9

    def advance(self, secs):
        self.t = self.t + secs


CLOCK = [Clock()]
_LOCAL = {'ip': '10.0.0.1', 'node': 1250999896491}


def _gethostbyaddr(x):
    ident = x.split('.')[-1]
    return f'supv0{ident}.bzh', [f'cliche0{ident}', f'supv0{ident}'], [x]


def _get_interface_info(nic):
    return {'lo': ('127.0.0.1', '255.0.0.0'), 'eth0': (_LOCAL['ip'], '255.255.255.0')}.get(nic)


class _Env:
    """installs the clock and the socket/uuid lookups for the duration of one scenario run"""
    def __enter__(self):
        import supvisors.internal_com.mapper as mapper
        self.saved = (time.monotonic, time.time, socket.gethostname, socket.getfqdn, socket.gethostbyaddr,
                      socket.if_nameindex, uuid.getnode, mapper.get_interface_info)
        CLOCK[0] = Clock()
        time.monotonic = lambda: CLOCK[0].monotonic()
        time.time = lambda: CLOCK[0].time()
        socket.gethostname = lambda: 'supv01.bzh'
        socket.getfqdn = lambda name='': name or 'supv01.bzh'
        socket.gethostbyaddr = _gethostbyaddr
        socket.if_nameindex = lambda: [(1, 'lo'), (2, 'eth0')]
        uuid.getnode = lambda: _LOCAL['node']
        mapper.get_interface_info = _get_interface_info
        _deterministic_hashes()
        return self

    def __exit__(self, *exc):
        import supvisors.internal_com.mapper as mapper
        (time.monotonic, time.time, socket.gethostname, socket.getfqdn, socket.gethostbyaddr,
         socket.if_nameindex, uuid.getnode, mapper.get_interface_info) = self.saved
        from supervisor import events
        events.clear()
        return False


_HASHED = [False]


def _deterministic_hashes():
    """sets of ProcessStatus / ApplicationStatus are iterated by the code under test; the default id()-based hash
    makes that order depend on memory addresses, i.e. differ between two executions of the same path.  Hash by
    name instead (equality stays identity): same sets, reproducible order."""
    if _HASHED[0]:
        return
    _HASHED[0] = True
    from supvisors.process import ProcessStatus
    from supvisors.application import ApplicationStatus
    ProcessStatus.__hash__ = lambda self: hash(self.namespec)
    ApplicationStatus.__hash__ = lambda self: hash(self.application_name)


def rigged(scenario):
    """decorator: run the scenario inside the stubbed environment"""
    @functools.wraps(scenario)
    def wrapper(src, **params):
        with _Env():
            return scenario(src, **params)
    return wrapper


def set_local(ip, node):
    _LOCAL['ip'] = ip
    _LOCAL['node'] = node


class RecLogger:
    """logger stub: records critical/error calls, ignores the rest (f-strings are evaluated by the caller)"""
    level = 100
    handlers = []

    def __init__(self):
        self.criticals = []
        self.errors = []

    def critical(self, msg, *a, **k):
        self.criticals.append(msg)

    def error(self, msg, *a, **k):
        self.errors.append(msg)

    def _noop(self, *a, **k):
        return None

    warn = info = debug = trace = blather = log = close = _noop

    def tracebacks(self):
        """critical records produced by a last-resort guard (they embed a traceback)"""
        return [m for m in self.criticals if isinstance(m, str) and 'Traceback' in m]


class RecRpc:
    """stands for RpcHandler: records every request/publication instead of queuing it to the proxy threads"""
    def __init__(self):
        self.out = []

    def __getattr__(self, name):
        if name.startswith('send_') or name.startswith('push_'):
            def rec(*a, **k):
                self.out.append((name, a))
            return rec
        raise AttributeError(name)

    def stop(self):
        pass

    def named(self, *names):
        return [(n, a) for n, a in self.out if n in names]

    def requests(self):
        """everything that is not a plain publication of local events"""
        return [(n, a) for n, a in self.out
                if n in ('send_start_process', 'send_stop_process', 'send_restart', 'send_shutdown',
                         'send_restart_all', 'send_shutdown_all', 'send_restart_sequence')]


class DummySupervisord:
    class options:
        here = '.'
        environ_expansions = {}
        serverurl = 'http://localhost:25000'
