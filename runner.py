"""Check runner: explores the harnesses of one property, replays counterexamples, matches known findings,
writes evidence/<id>.json and prints the verdict lines of the interface (DESIGN.md section 6)."""
import argparse
import fnmatch
import hashlib
import importlib
import inspect
import json
import os
import sys
import time

HERE = os.path.dirname(os.path.abspath(__file__))
sys.path.insert(0, HERE)

from rig import stubs  # noqa: E402  (puts $VERIF_REPO first on sys.path)
import symx  # noqa: E402
import symx.summary  # noqa: E402
from symx.engine import explore, run_concrete, signature, HarnessError, ExploreResult  # noqa: E402

_now = stubs._real_time


class Harness:
    def __init__(self, name, scenario, quick=None, thorough=None, reach=(), timeout=(120, 900), classify=None,
                 validate_every=20, max_paths=(None, None), doc='', nontrivial=None):
        self.name = name
        self.scenario = scenario
        self.quick = quick              # None = not run in that tier
        self.thorough = thorough
        self.reach = tuple(reach)
        self.timeout = timeout
        self.classify = classify
        self.validate_every = validate_every
        self.max_paths = max_paths
        self.doc = doc


def load_known():
    path = os.path.join(HERE, 'known_findings.json')
    if not os.path.exists(path):
        return []
    with open(path) as f:
        return json.load(f).get('findings', [])


def functions_encoded(scenario, params, inputs):
    """module.qualname and sha256 of the source of every function of the code under test entered by one run"""
    seen = {}
    root = os.path.realpath(os.path.join(stubs.REPO, 'supvisors'))

    def prof(frame, event, arg):
        if event == 'call':
            code = frame.f_code
            fn = code.co_filename
            if fn.startswith(root) and '/tests/' not in fn and code not in seen:
                seen[code] = (fn, code.co_qualname if hasattr(code, 'co_qualname') else code.co_name,
                              code.co_firstlineno)
    sys.setprofile(prof)
    try:
        run_concrete(scenario, params, inputs)
    except BaseException:
        pass
    finally:
        sys.setprofile(None)
    out = {}
    cache = {}
    for code, (fn, qual, line) in seen.items():
        if qual.startswith('<') or '<lambda>' in qual or '<listcomp>' in qual or '<genexpr>' in qual:
            continue
        try:
            if fn not in cache:
                with open(fn) as f:
                    cache[fn] = f.read().split('\n')
            lines = cache[fn]
            block = inspect.getblock(lines[line - 1:])
            h = hashlib.sha256('\n'.join(block).encode()).hexdigest()[:16]
        except Exception:
            h = '?'
        mod = os.path.relpath(fn, os.path.dirname(root))[:-3].replace('/', '.')
        out[f'{mod}.{qual}'] = h
    return out


def run_property(prop, tier, seed, only=None):
    mod = importlib.import_module(f'harness.{prop.lower()}')
    known = [k for k in load_known() if k['property'] == prop]
    t0 = _now()
    per_harness = []
    total = ExploreResult()
    violations = []       # (sig, failure, replay path)
    known_hit = []
    errors = []
    encoded = {}
    os.makedirs(os.path.join(HERE, 'replays'), exist_ok=True)
    for h in mod.HARNESSES:
        if only and h.name not in only:
            continue
        params = h.quick if tier == 'quick' else h.thorough
        if params is None:
            continue
        # the thorough budgets written in the harness files are the budgets of a 20 h campaign; the registered
        # thorough commands use a quarter of them (about 5 h for the 20 properties on 16 cores at worst) unless
        # VERIF_THOROUGH_FACTOR says otherwise
        timeout = h.timeout[0] if tier == 'quick' else h.timeout[1] * float(os.environ.get('VERIF_THOROUGH_FACTOR',
                                                                                           '0.25'))
        if os.environ.get('VERIF_TIME_SCALE'):
            timeout = max(10, timeout * float(os.environ['VERIF_TIME_SCALE']))      # diagnostic runs only
        max_paths = h.max_paths[0] if tier == 'quick' else h.max_paths[1]
        res = explore(h.scenario, params, harness=h.name, seed=seed, timeout=timeout, max_paths=max_paths,
                      validate_every=h.validate_every, classify=h.classify)
        degraded = False
        if res.failures and not symx.summary.CONCRETE[0]:
            # a failure seen symbolically only (typically an exception raised because the code handles a merged
            # symbolic value in a way no proxy can follow): explore again with summaries turned back into plain
            # values by forking, and judge that exploration instead
            leaks = [sig for sig, f in sorted(res.failures.items())
                     if (lambda c: c is None or c[0] != f['tag'])(run_concrete(h.scenario, params, f['inputs'])[0])]
            if leaks:
                symx.summary.CONCRETE[0] = True
                try:
                    res = explore(h.scenario, params, harness=h.name, seed=seed, timeout=timeout,
                                  max_paths=max_paths, validate_every=h.validate_every, classify=h.classify)
                finally:
                    symx.summary.CONCRETE[0] = False
                degraded = True
        errors.extend(res.errors)
        # vacuity: every declared tag must be reached by a feasible path (the reachability twin of the harness)
        if res.exhaustive or res.paths > 0:
            for tag in h.reach:
                if not res.reached.get(tag):
                    if res.exhaustive:
                        errors.append(f'{h.name}: vacuity: tag {tag!r} is never reached')
        if res.paths == 0:
            errors.append(f'{h.name}: no feasible path')
        # replay the counterexamples concretely on the untouched code
        confirmed = 0
        for sig, f in sorted(res.failures.items()):
            cfail, _, _ = run_concrete(h.scenario, params, f['inputs'])
            if cfail is None or cfail[0] != f['tag']:
                errors.append(f"{h.name}: counterexample for {sig} does not reproduce concretely "
                              f"(got {cfail and cfail[0]}) inputs={f['inputs']}")
                continue
            csig = signature(h.name, cfail[0], cfail[1])
            f['replayed_signature'] = csig
            f['detail'] = {k: v for k, v in symx.engine._jsonable(cfail[1]).items()}
            match = next((k for k in known if k.get('status') == 'finding' and
                          (fnmatch.fnmatchcase(csig, k['signature']) or fnmatch.fnmatchcase(sig, k['signature']))),
                         None)
            if match:
                known_hit.append((match, sig, f))
            else:
                rid = hashlib.sha256(sig.encode()).hexdigest()[:10]
                rpath = os.path.join('replays', f'{prop}-{rid}.json')
                with open(os.path.join(HERE, rpath), 'w') as out:
                    json.dump({'property': prop, 'harness': h.name, 'tier': tier, 'params': params, 'tag': f['tag'],
                               'signature': sig, 'inputs': f['inputs'], 'detail': f['detail']}, out, indent=1,
                              default=repr)
                violations.append((sig, f, rpath))
            confirmed += 1
        if res.samples and not encoded.get(h.name):
            try:
                encoded[h.name] = functions_encoded(h.scenario, params, res.samples[0]['inputs'])
            except Exception as exc:
                errors.append(f'{h.name}: functions_encoded: {exc}')
        per_harness.append({'harness': h.name, 'doc': h.doc, 'params': symx.engine._jsonable(params),
                            'paths': res.paths, 'infeasible_paths': res.infeasible, 'decisions': res.decisions,
                            'solver_checks': res.checks, 'sat': res.sat, 'unsat': res.unsat,
                            'unknown': res.unknown, 'solver_s': round(res.solver_s, 2),
                            'wall_s': round(res.wall_s, 2), 'time_budget_s': round(timeout, 1),
                            'exhaustive': res.exhaustive,
                            'cross_validated': res.validated, 'reach': res.reached,
                            'failure_signatures': sorted(res.failures),
                            'outcome_classes': len(res.obs_classes) or None,
                            'summaries': 'forked back into plain values (a symbolic-only failure was met)'
                            if degraded else 'merged'})
        total.merge(res)
    # --- checks of the module that are not path explorations (Float64 SMT queries)
    extra_ev = {}
    if hasattr(mod, 'extra_checks') and not only:
        try:
            xv, extra_ev, xerr = mod.extra_checks(tier, seed)
            errors.extend(xerr)
            for v in xv:
                match = next((k for k in known if k.get('status') == 'finding'
                              and fnmatch.fnmatchcase(v['signature'], k['signature'])), None)
                if match:
                    known_hit.append((match, v['signature'], v))
                    continue
                rid = hashlib.sha256(v['signature'].encode()).hexdigest()[:10]
                rpath = os.path.join('replays', f'{prop}-{rid}.json')
                with open(os.path.join(HERE, rpath), 'w') as out:
                    json.dump({'property': prop, 'harness': v['harness'], 'tier': tier, 'params': {},
                               'tag': v['tag'], 'signature': v['signature'], 'inputs': v['inputs'],
                               'detail': v['detail']}, out, indent=1, default=repr)
                violations.append((v['signature'], v, rpath))
        except Exception as exc:
            import traceback as _tb
            errors.append(f'extra_checks: {exc} {_tb.format_exc()[-600:]}')
    wall = _now() - t0
    # --- evidence
    all_funcs = {}
    for d in encoded.values():
        all_funcs.update(d)
    samples = total.samples[:4] or [{'note': 'no completed path'}]
    evidence = {
        'property_id': prop, 'tier': tier, 'seed': seed, 'level': 'model_checking',
        'coverage': {
            'states': max(total.paths, 0), 'transitions': max(total.decisions, 0),
            'traces_validated_against_impl': total.validated,
            'samples': samples,
            'exhaustive': bool(total.exhaustive and not errors),
            'explanation': 'states = feasible paths of the real code explored symbolically (each is one equivalence '
                           'class of inputs decided by z3); transitions = branch decisions settled by the solver; '
                           'traces_validated_against_impl = paths whose model was re-run concretely on the real code '
                           'and compared observable by observable',
            'queries': {'checks': total.checks, 'sat': total.sat, 'unsat': total.unsat, 'unknown': total.unknown},
            'solver_s': round(total.solver_s, 2),
            'harnesses': per_harness,
            'functions_encoded': all_funcs,
            'bounds': getattr(mod, 'BOUNDS', {}).get(tier, getattr(mod, 'BOUNDS', {})),
            'outside_bounds': getattr(mod, 'OUTSIDE', []),
            'known_findings_matched': [{'signature': k['signature'], 'what': k['what']} for k, _, _ in known_hit],
            'harness_errors': errors[:10],
        },
        'assumptions': getattr(mod, 'ASSUMPTIONS', []) + getattr(mod, 'STUBS', []),
        'wall_s': round(wall, 2),
        'violations': len(violations),
    }
    evidence['coverage'].update(extra_ev)
    if evidence['coverage']['states'] < 1:
        evidence['coverage']['states'] = 1
    if evidence['coverage']['transitions'] < 1:
        evidence['coverage']['transitions'] = 1
    evdir = os.environ.get('VERIF_EVIDENCE_DIR') or os.path.join(HERE, 'evidence')
    os.makedirs(evdir, exist_ok=True)
    with open(os.path.join(evdir, f'{prop}.json'), 'w') as out:
        json.dump(evidence, out, indent=1, default=repr)
    # --- verdict
    seen = set()
    for k, sig, f in known_hit:
        if k['signature'] not in seen:
            seen.add(k['signature'])
            print(f"KNOWN-FINDING: property={prop} {k['what']}")
    for sig, f, rpath in violations:
        print(f'VIOLATION property={prop} replay={rpath}')
        print(f'  signature: {sig}')
        print(f"  inputs: {json.dumps(f['inputs'], default=repr)[:600]}")
        d = {k: v for k, v in f.get('detail', {}).items() if k != '_traceback'}
        print(f'  detail: {json.dumps(d, default=repr)[:600]}')
    print(f"{prop} {tier}: paths={total.paths} decisions={total.decisions} solver_checks={total.checks} "
          f"validated={total.validated} exhaustive={evidence['coverage']['exhaustive']} "
          f"violations={len(violations)} known={len(seen)} wall={wall:.1f}s")
    if errors:
        for e in errors[:10]:
            print(f'HARNESS-ERROR {e[:500]}')
        if not violations:
            return 2
    return 1 if violations else 0


def replay(prop, path):
    with open(path) as f:
        rec = json.load(f)
    mod = importlib.import_module(f'harness.{prop.lower()}')
    if rec['harness'] == 'fp':
        bad, detail = mod.replay_extra(rec)
        print(json.dumps({'inputs': rec['inputs'], 'result': detail}, default=repr, indent=1))
        if bad:
            print(f'VIOLATION property={prop} replay={path}')
            return 1
        print(f'replay: the recorded inputs no longer violate {prop} ({rec["signature"]})')
        return 0
    h = next(x for x in mod.HARNESSES if x.name == rec['harness'])
    fail, obs, _ = run_concrete(h.scenario, rec['params'], rec['inputs'])
    print(json.dumps({'inputs': rec['inputs'], 'observations': obs}, default=repr, indent=1)[:4000])
    if fail is None:
        print(f'replay: the recorded inputs no longer violate {prop} ({rec["signature"]})')
        return 0
    print(f'VIOLATION property={prop} replay={path}')
    print(f'  tag: {fail[0]}')
    print(f'  detail: {json.dumps(symx.engine._jsonable(fail[1]), default=repr)[:3000]}')
    return 1


def main(argv=None):
    ap = argparse.ArgumentParser()
    ap.add_argument('property')
    ap.add_argument('--tier', default=os.environ.get('VERIF_TIER', 'quick'), choices=['quick', 'thorough'])
    ap.add_argument('--seed', type=int, default=int(os.environ.get('VERIF_SEED', '0')))
    ap.add_argument('--replay')
    ap.add_argument('--only', action='append')
    a = ap.parse_args(argv)
    if a.replay:
        return replay(a.property, a.replay)
    return run_property(a.property, a.tier, a.seed, a.only)


if __name__ == '__main__':
    sys.exit(main())
