#!/bin/sh
# tools/run_all.sh [quick|thorough] : runs every registered check in turn, prints one line per property
cd "$(dirname "$0")/.." || exit 3
TIER="${1:-quick}"
for p in C01 C02 C03 C04 C05 C06 C07 C08 C09 C10 C11 C12 C13 C14 C15 C16 C17 C18 C19 C20; do
    S=$(date +%s)
    OUT=$(./check $p --tier $TIER 2>&1)
    RC=$?
    E=$(date +%s)
    echo "$p rc=$RC $((E-S))s $(echo "$OUT" | grep "^$p $TIER" | cut -c1-160)"
    echo "$OUT" | grep "^VIOLATION\|^HARNESS-ERROR" | head -3 | cut -c1-300
done
