#!/bin/sh
# tools/coverage_run.sh <property> [tier]  : branch coverage of /repo/supvisors reached by one check (single worker,
# so a lower bound of what the parallel run explores); report restricted to the files the property is anchored in.
# Scratch data under a temp dir outside /repo and /verif, removed afterwards.  Diagnostic only (not a check).
P="$1"; TIER="${2:-quick}"
cd /verif || exit 3
[ -x .venv/bin/python ] || ./setup.sh >/dev/null
TMP=$(mktemp -d /tmp/supv_cov_XXXX)
FILES=$(.venv/bin/python -c "
import json
for l in open('properties.jsonl'):
    d=json.loads(l)
    if d['id']=='$P': print(','.join('/repo/'+f for f in d['anchors']['files'] if f.endswith('.py')))")
PYTHONHASHSEED=0 PYTHONWARNINGS=ignore PYTHONDONTWRITEBYTECODE=1 SUPVISORS_VERIF=1 VERIF_WORKERS=1 \
  VERIF_EVIDENCE_DIR="$TMP/ev" COVERAGE_FILE="$TMP/cov" \
  .venv/bin/python -m coverage run --branch --source=/repo/supvisors runner.py "$P" --tier "$TIER" > "$TMP/out" 2>&1
tail -1 "$TMP/out"
COVERAGE_FILE="$TMP/cov" .venv/bin/python -m coverage report --include="$FILES" -m 2>/dev/null
rm -rf "$TMP"
