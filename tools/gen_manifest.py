"""generates MANIFEST.json from the table below (kept in one place so that it stays valid at all times)"""
import json, os
HERE = os.path.dirname(os.path.dirname(os.path.abspath(__file__)))
props = [json.loads(l) for l in open(os.path.join(HERE, 'properties.jsonl'))]
CLAIMS = json.load(open(os.path.join(HERE, 'tools', 'claims.json')))
checks, na = [], []
for p in props:
    c = CLAIMS.get(p['id'])
    if not c or c.get('not_applicable'):
        na.append({'property_id': p['id'], 'reason': (c or {}).get('not_applicable', 'no check built yet (work in progress)')})
        continue
    checks.append({
        'property_id': p['id'],
        'quick_cmd': f"./check {p['id']} --tier quick",
        'thorough_cmd': f"./check {p['id']} --tier thorough",
        'evidence_file': f"evidence/{p['id']}.json",
        'replay_cmd_template': f"./check {p['id']} --replay {{path}}",
        'engine': 'symx',
        'level_claimed': {'category': 'model_checking', 'text': c['text'], 'design_ref': c.get('design_ref', 'DESIGN.md section 5')},
        'level_note': c['note'],
        'technique': c['technique'],
    })
m = {
    'version': 1,
    'setup_cmd': './setup.sh',
    'hooks': {'guard': 'SUPVISORS_VERIF', 'enable': 'no source hook: the checks import /repo (or $VERIF_REPO) as it is and install their stubs from outside by attribute assignment; SUPVISORS_VERIF=1 is only exported by ./check for symmetry',
              'baseline_off_cmd': 'cd /repo && /venv/bin/python -m pytest -ra -q -p no:cacheprovider --timeout=900 --continue-on-collection-errors',
              'source_commits': [], 'add_only': True},
    'engines': [{'name': 'symx', 'path': 'symx/', 'serves_properties': [c['property_id'] for c in checks],
                 'kind_free_text': 'own dynamic symbolic executor: the real Python functions of /repo run on z3-backed proxy values; one incremental z3 solver decides every branch, paths are explored exhaustively within the stated bounds by re-execution, counterexample models are replayed concretely on the real code'},
                {'name': 'fp-smt', 'path': 'fp/', 'serves_properties': ['C20', 'C18'],
                 'kind_free_text': 'AST -> SMT-LIB (QF_FP, Float64) translation of arithmetic kernels, decided by cvc5 and z3'}],
    'checks': checks,
    'not_applicable': na,
    'notes': 'Technique family: solver-based checking of the real code. Every verdict is bounded; bounds and what lies outside them are in DESIGN.md section 5 and in each evidence file. Exit 0 = held on everything explored (KNOWN-FINDING lines possible), 1 = VIOLATION (replayed concretely first), 2 = HARNESS-ERROR (never a VIOLATION).',
}
json.dump(m, open(os.path.join(HERE, 'MANIFEST.json'), 'w'), indent=1)
print('checks', len(checks), 'not_applicable', len(na))
