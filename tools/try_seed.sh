#!/bin/sh
# tools/try_seed.sh <dir containing patch.diff> <property> [more check args]
# applies the patch to a scratch copy of /repo (outside /repo and /verif), runs the check against it, removes the copy
SEED="$1"; PROP="$2"; shift 2
TMP=$(mktemp -d /tmp/supv_seedrun_XXXX)
mkdir -p "$TMP/evidence"
cp -r /repo/supvisors "$TMP/supvisors"
find "$TMP" -name __pycache__ -prune -exec rm -rf {} + 2>/dev/null
(cd "$TMP" && patch -s -p1 < "$SEED/patch.diff") || { echo "PATCH FAILED"; rm -rf "$TMP"; exit 3; }
cd /verif && VERIF_REPO="$TMP" VERIF_EVIDENCE_DIR="$TMP/evidence" ./check "$PROP" "$@" 2>&1 | grep -v "^  inputs\|^  detail" | tail -${TAIL:-12}
rm -rf "$TMP"
