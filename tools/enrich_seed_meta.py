"""tools/enrich_seed_meta.py <confirm log> : records in seeded/<id>/meta.json what tools/confirm_seed.sh printed
(confirmed_here) and which check caught the change (detected_by, from DETECTED below)."""
import json
import re
import sys

DETECTED = {
    'C01-c': ['C01: H01g one-master-per-group (added after the miss)'],
    'C03-c': ['C03: H03c sequence-zero-application-never-started (added after the miss)'],
    'C06-c': ['C06: H06d unsequenced-restart-process-running-once-on-survivor (added after the miss)'],
    'C07-c': ['C07: H07b silent-peer-invalidated-by-this-tick'],
    'C12-c': ['C12: H12-overlap reported-location-is-true (added after the miss)', 'C11: H11 listing'],
    'C14-c': ['C14: H14b / H14b-config strategy-within-the-node (added after the miss)'],
    'C18-c': ['C18: H18b application-exact-name-then-longest-match'],
    'C20-c': ['C20: H20i io-rate-non-negative, H20a io-rate-non-negative (added after the miss)'],
    'C02-c': ['C02: H02a-n3-election invariant-I1-local-master-is-seen-running (added after the miss)'],
    'C04-c': ['C04: H04b-dist target-knows-and-enables (added after the miss)', 'C14: H14b-config'],
    'C05-c': ['C05: H05-2 restart-starts-one-copy-again'],
    'C08-c': ['C08: H08c-split back-to-operation (added after the miss)', 'C01: H01g'],
    'C09-c': ['C09: H09-master stop-sent-where-supvisors-lists-the-process-running (added after the miss)'],
    'C10-c': ['C10: H10-stop abandoned-after-the-deadline'],
    'C11-c': ['C11: H11-n2 / H11-n3 op:event:displayed'],
    'C13-c': ['C13: H13b stale-handshake-result-changes-nothing with a slow XML-RPC (added after the miss)'],
    'C15-c': ['C15: H15c other-construct-is-major-failure'],
    'C16-c': ['C16: H16b events-handled-without-internal-error, H16d'],
    'C17-c': ['C17: H17 exception:ValueError'],
    'C19-c': ['C19: H19a-full exception:TypeError'],
    'C01-d': ['C01: H01g one-master-per-group with a stalled proxy thread (added after the miss)'],
    'C02-d': ['C02: see DESIGN.md section 13'],
    'C03-d': ['C03: H03b stop-strategy-stops-the-application'],
    'C04-d': ['C04: H04a chosen-is-eligible, H04b-1proc target-permitted'],
    'C05-d': ['C05: H05-2 stops-where-the-strategy-says with an instance in its handshake (added after the miss)'],
    'C06-d': ['C06: H06e no-strategy-while-the-process-still-runs (added after the miss)'],
    'C07-d': ['C07: H07b its-processes-fatal-and-unlisted'],
    'C08-d': ['C08: H08c-distribution back-to-operation (added after the miss)'],
    'C09-d': ['C09: H09-master higher-stop-sequence-finished-first with an explicit stop_sequence 0 (added after the '
              'miss)'],
    'C10-d': ['C10: H10-start / H10-local abandoned-after-the-deadline'],
    'C11-d': ['C11: H11-n2 / H11-n3 op:removal:state'],
    'C12-d': ['C12: H12-loss reported-location-is-true (added after the miss)'],
    'C13-d': ['C13: H13b inconsistent-peer-is-isolated'],
    'C14-d': ['C14: H14a-n3lean strategy-order'],
    'C15-d': ['C15: H15b-meta major-is-negated-formula (added after the miss)'],
    'C16-d': ['C16: H16f exception:RuntimeError (added after the miss)', 'C04: H04b-1proc'],
    'C17-d': ['C17: H17 refused-outside-its-states'],
    'C18-d': ['C18: H18c references-followed-to-depth-3-own-values-first with symbolic values (added after the miss)'],
    'C19-d': ['C19: H19a repeated-prediction-is-the-same, H19a-full model-left-idle'],
    'C20-d': ['C20: H20c running-process-still-collected (added after the miss)'],
    'C01-e': ['C01: H01g one-master-per-group with one failing XML-RPC (added after the miss)'],
    'C02-e': ['C02: H02a documented-edge'],
    'C03-e': ['C03: H03b nothing-requested-after-required-failure with the no_resource behaviour (added after the miss)'],
    'C04-e': ['C04: H04b node-load-with-requests'],
    'C05-e': ['C05: H05-1 / H05-2 conflict-list'],
    'C06-e': ['C06: H06f lost-process-running-once-on-a-survivor (added after the miss)'],
    'C07-e': ['C07: H07b silent-peer-invalidated-by-this-tick with the peer being the Master (added after the miss)'],
    'C08-e': ['C08: H08c-distribution back-to-operation with proxy threads scheduled at once (added after the miss)'],
    'C09-e': ['C09: H09-twice (added after the miss)'],
    'C10-e': ['C10: H10 forced-state-published-with-reason with event_link (added after the miss)'],
    'C11-e': ['C11: H11-n3 op:loss:state'],
    'C12-e': ['C12: H12-race reported-location-is-true (actor-saw-observer-CHECKING)'],
    'C13-e': ['C13: H13e nothing-handled-once-stopped (added after the miss)'],
    'C14-e': ['C14: H14b whole-application-follows-strategy with an ignored program rule (added after the miss)'],
    'C15-e': ['C15: H15a application-state'],
    'C16-e': ['C16: H16f exception:KeyError, H16g'],
    'C17-e': ['C17: H17 documented-fault-for-bad-parameter with wrong-type strategies (added after the miss)'],
    'C18-e': ['C18: H18h (added after the miss)'],
    'C19-e': ['C19: H19a prediction-changes-nothing with a forced state (added after the miss)'],
    'C20-e': ['C20: H20a entity-series-aligned'],
    'C01-f': ['C01: H01h one-master-per-group (added after the miss)', 'C08: H08c-distribution'],
    'C03-f': ['C03: H03d (added after the miss)'],
    'C05-f': ['C05: H05-2 running-failure-strategy-applied (added after the miss)'],
    'C06-f': ['C06: H06d with STARTING / BACKOFF (added after the miss)'],
    'C08-f': ['C08: H08c-resync path-does-not-terminate (added after the miss)'],
    'C09-f': ['C09: H09 everything-was-asked-to-stop with a STARTING process (added after the miss)'],
    'C12-f': ['C12: H12-faults reported-location-is-true'],
    'C16-f': ['C16: H16h exception:KeyError (added after the miss)'],
    'C18-f': ['C18: H18i element-value-supersedes-the-option (added after the miss)'],
    'C20-f': ['C20: H20a / H20p point-iff-period-elapsed'],
    'C02-f': ['C02: H02a documented-edge FINAL->DISTRIBUTION (added after the miss)'],
    'C04-f': ['C04: H04d (added after the miss)', 'C13: H13d'],
    'C07-f': ['C07: H07b process-that-ran-only-there-is-reported-fatal (added after the miss)', 'C11: H11-n3 op:loss'],
    'C10-f': ['C10: H10-stop job-abandoned-when-target-lost'],
    'C11-f': ['C11: H11-gate (added after the miss)', 'C13: H13d'],
    'C13-f': ['C13: H13d forced-state (added after the miss)'],
    'C14-f': ['C14: H14b-late added-command-config-order (added after the miss)'],
    'C15-f': ['C15: H15d (added after the miss)'],
    'C17-f': ['C17: H17 / H17h documented-fault-for-bad-parameter'],
    'C19-f': ['C19: H19a-full prediction-changes-nothing with stored extra arguments (added after the miss)'],
    'C02-g': ['C02: H02a invariant-I1-local-master-is-seen-running with the step peer_failure (added after the miss)'],
    'C05-g': ['C05: H05-2 / H05-states stops-where-the-strategy-says (INFANTICIDE, equal uptimes)'],
    'C07-g': ['C07: H07b rpc-failure-means-failed-at-once with the real proxy handle_exception (added after the miss)'],
    'C10-g': ['C10: H10 job-abandoned-when-target-lost with auto_fence (added after the miss)'],
    'C11-g': ['C11: H11 op:snapshot:listing / state with a rebooted sender (added after the miss)'],
    'C13-g': ['C13: H13b peer-that-isolated-us-is-isolated / inconsistent-peer-is-isolated with a Master in a closing '
              'state (added after the miss)'],
    'C15-g': ['C15: H15c exception:IndexError'],
    'C17-g': ['C17: H17 refused-while-jobs-in-progress-elsewhere (added after the miss)'],
    'C18-g': ['C18: H18e out-of-range-value-falls-back-to-default (NaN)'],
    'C20-g': ['C20: H20c running-process-still-collected / stop-reported-to-the-compiler with other collected '
              'processes (added after the miss)'],
    'C04-g': ['C04: H04b-single-instance target-knows-and-enables (SINGLE_INSTANCE moved into the quick tier after the '
              'miss; it was explored in the thorough tier only)'],
    'C14-g': ['C14: H14c strategy-order-with-pending-starts (three processes of one sequence; added after the miss)'],
    'C19-g': ['C19: H19a repeated-prediction-is-the-same with the first process EXITED before the prediction (added '
              'after the miss)'],
}
for line in open(sys.argv[1]):
    m = re.match(r'(C\d\d-\w): without=\[(.*?)\] with=\[(.*?)\] suite=\[(.*)\]', line.strip())
    if not m:
        continue
    sid, without, with_, suite = m.groups()
    path = f'/verif/seeded/{sid}/meta.json'
    meta = json.load(open(path))
    meta['id'] = sid
    meta['confirmed_here'] = {
        'how': 'tools/confirm_seed.sh: fresh scratch worktree of /repo HEAD, demo without patch, demo with patch, '
               'pinned suite with patch in a private network namespace (tools/suite_check.py vs BASELINE.json)',
        'demo_without_patch': without, 'demo_with_patch': with_, 'suite_with_patch': suite}
    if sid in DETECTED:
        meta['detected_by'] = DETECTED[sid]
    meta.setdefault('how_checked', f'tools/try_seed.sh /verif/seeded/{sid} <property> --tier quick (patched scratch '
                                   'copy of /repo/supvisors through VERIF_REPO; /repo untouched)')
    json.dump(meta, open(path, 'w'), indent=1)
    print(sid, 'ok' if 'failed' in with_ and 'failed' not in without and '1078 passed 1078' in suite else 'NOT CONFIRMED')
