"""tools/enrich_seed_meta.py <confirm log> : records in seeded/<id>/meta.json what tools/confirm_seed.sh printed
(confirmed_here) and which check caught the change (detected_by, from DETECTED below)."""
import json
import re
import sys

DETECTED = {
    'C01-c': ['C01: H01g one-master-per-group (added after the miss)'],
    'C03-c': ['C03: H03c sequence-zero-application-never-started (added after the miss)'],
    'C06-c': ['C06: H06d unsequenced-restart-process-running-once-on-survivor (added after the miss)'],
    'C07-c': ['C07: H07b silent-peer-invalidated-by-this-tick'],
    'C12-c': ['C12: H12-overlap reported-location-is-true (added after the miss)', 'C11: H11 listing'],
    'C14-c': ['C14: H14b / H14b-config strategy-within-the-node (added after the miss)'],
    'C18-c': ['C18: H18b application-exact-name-then-longest-match'],
    'C20-c': ['C20: H20i io-rate-non-negative, H20a io-rate-non-negative (added after the miss)'],
}
for line in open(sys.argv[1]):
    m = re.match(r'(C\d\d-\w): without=\[(.*?)\] with=\[(.*?)\] suite=\[(.*)\]', line.strip())
    if not m:
        continue
    sid, without, with_, suite = m.groups()
    path = f'/verif/seeded/{sid}/meta.json'
    meta = json.load(open(path))
    meta['id'] = sid
    meta['confirmed_here'] = {
        'how': 'tools/confirm_seed.sh: fresh scratch worktree of /repo HEAD, demo without patch, demo with patch, '
               'pinned suite with patch in a private network namespace (tools/suite_check.py vs BASELINE.json)',
        'demo_without_patch': without, 'demo_with_patch': with_, 'suite_with_patch': suite}
    if sid in DETECTED:
        meta['detected_by'] = DETECTED[sid]
    meta.setdefault('how_checked', f'tools/try_seed.sh /verif/seeded/{sid} <property> --tier quick (patched scratch '
                                   'copy of /repo/supvisors through VERIF_REPO; /repo untouched)')
    json.dump(meta, open(path, 'w'), indent=1)
    print(sid, 'ok' if 'failed' in with_ and 'failed' not in without and '1078 passed 1078' in suite else 'NOT CONFIRMED')
