"""runs the repository's pinned suite and compares with /root/.vp/BASELINE.json stable_pass"""
import json, subprocess, sys, xml.etree.ElementTree as ET, os, tempfile
out = tempfile.mktemp(suffix='.xml')
repo = sys.argv[1] if len(sys.argv) > 1 else '/repo'
subprocess.run(['/venv/bin/python', '-m', 'pytest', '-q', '-p', 'no:cacheprovider', '--timeout=900',
                '--continue-on-collection-errors', f'--junitxml={out}'], cwd=repo, stdout=subprocess.DEVNULL,
               stderr=subprocess.DEVNULL, env={k: v for k, v in os.environ.items() if k != 'SUPVISORS_VERIF'})
base = set(json.load(open('/root/.vp/BASELINE.json'))['stable_pass'])
passed = set()
for tc in ET.parse(out).getroot().iter('testcase'):
    if not any(ch.tag in ('failure', 'error', 'skipped') for ch in tc):
        passed.add(f"{tc.get('classname')}::{tc.get('name')}")
missing = sorted(base - passed)
if missing and len(missing) <= 40:
    # timing-based tests (zmq publish / subscribe with sleeps) fail when the machine is loaded: the missing ones are
    # run once more on their own before they are reported
    files = sorted({m.split('::')[0].replace('.', '/') + '.py' for m in missing})
    subprocess.run(['/venv/bin/python', '-m', 'pytest', '-q', '-p', 'no:cacheprovider', '--timeout=900',
                    f'--junitxml={out}'] + files, cwd=repo, stdout=subprocess.DEVNULL, stderr=subprocess.DEVNULL,
                   env={k: v for k, v in os.environ.items() if k != 'SUPVISORS_VERIF'})
    for tc in ET.parse(out).getroot().iter('testcase'):
        if not any(ch.tag in ('failure', 'error', 'skipped') for ch in tc):
            passed.add(f"{tc.get('classname')}::{tc.get('name')}")
    retried = missing
    missing = sorted(base - passed)
    print('retried', len(retried), 'tests of', files)
print('baseline', len(base), 'passed', len(passed), 'missing from baseline:', missing)
os.remove(out)
sys.exit(1 if missing else 0)
