#!/bin/sh
# tools/confirm_seed.sh <seeded dir>   : confirms a seeded change in a fresh scratch worktree of /repo (removed afterwards):
#   demo fails with the patch, passes without, the pinned suite gives the baseline result with the patch applied
D="$(cd "$1" && pwd)"; NAME=$(basename "$D")
WT=/tmp/confirm_$NAME
git -C /repo worktree remove --force "$WT" 2>/dev/null
git -C /repo worktree add -q "$WT" HEAD || exit 3
cd "$WT"
cp "$D/demo_test.py" supvisors/tests/test_seed_demo.py
run_demo() { /venv/bin/python -m pytest -q -p no:cacheprovider --timeout=600 supvisors/tests/test_seed_demo.py 2>&1 | tail -1; }
WITHOUT=$(run_demo)
git apply "$D/patch.diff" || { echo "$NAME: PATCH DOES NOT APPLY"; cd /; git -C /repo worktree remove --force "$WT"; exit 3; }
WITH=$(run_demo)
rm -f supvisors/tests/test_seed_demo.py
SUITE=$(unshare -rn sh -c 'ip link set lo up 2>/dev/null; ip link set lo multicast on 2>/dev/null; ip route add 224.0.0.0/4 dev lo 2>/dev/null; cd '"$WT"' && python3 /verif/tools/suite_check.py '"$WT"' 2>&1 | tail -1')
echo "$NAME: without=[$WITHOUT] with=[$WITH] suite=[$SUITE]"
cd /; git -C /repo worktree remove --force "$WT"
