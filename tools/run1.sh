#!/bin/sh
# ./tools/run1.sh C14 quick [--only H]
cd /verif && ./check "$1" --tier "${2:-quick}" $3 $4 2>&1 | tail -${TAIL:-25}
