import re,sys
def strip(fn):
    src=open(fn).read()
    src=re.sub(r'\n\s*"""(?:.|\n)*?"""', '', src)
    out=[]
    for i,l in enumerate(src.split('\n')):
        s=l.strip()
        if not s or s.startswith('#'): continue
        out.append(l)
    return '\n'.join(out)
print(strip(sys.argv[1]))
