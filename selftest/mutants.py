"""Self-assessment of detection power (DESIGN.md section 7): each mutant is a small edit of a scratch copy of
/repo/supvisors (outside /repo and /verif, removed afterwards) that compiles; the named check must report a VIOLATION.
Usage: selftest/mutants.py [name ...]      (no name = all)"""
import json
import os
import shutil
import subprocess
import sys
import tempfile

HERE = os.path.dirname(os.path.dirname(os.path.abspath(__file__)))
MUTANTS = json.load(open(os.path.join(HERE, 'selftest', 'mutants.json')))


def run(m, tier='quick'):
    tmp = tempfile.mkdtemp(prefix='supv_mut_')
    try:
        shutil.copytree('/repo/supvisors', os.path.join(tmp, 'supvisors'),
                        ignore=shutil.ignore_patterns('__pycache__', 'tests', 'test'))
        path = os.path.join(tmp, 'supvisors', m['file'])
        src = open(path).read()
        if src.count(m['old']) < 1:
            return 'STALE (pattern not found)'
        open(path, 'w').write(src.replace(m['old'], m['new'], 1))
        r = subprocess.run([sys.executable, '-c', f"import ast,sys; ast.parse(open({path!r}).read())"])
        if r.returncode:
            return 'DOES-NOT-COMPILE'
        env = dict(os.environ, VERIF_REPO=tmp, VERIF_EVIDENCE_DIR=os.path.join(tmp, 'evidence'))
        out = {}
        for prop in m['properties']:
            cmd = ['./check', prop, '--tier', tier] + sum((['--only', h] for h in m.get('only', [])), [])
            p = subprocess.run(cmd, cwd=HERE, env=env, capture_output=True, text=True)
            viol = [l for l in p.stdout.split('\n') if l.startswith('VIOLATION')]
            sigs = [l.strip() for l in p.stdout.split('\n') if l.strip().startswith('signature:')]
            if m.get('expect') == 'pass':
                out[prop] = ('QUIET' if p.returncode == 0 and not viol else f'ALARM(exit {p.returncode})', sigs[:3])
            else:
                out[prop] = ('CAUGHT' if p.returncode == 1 and viol else f'MISSED(exit {p.returncode})', sigs[:3])
        return out
    finally:
        shutil.rmtree(tmp, ignore_errors=True)


if __name__ == '__main__':
    names = sys.argv[1:]
    for m in MUTANTS:
        if names and m['name'] not in names:
            continue
        print(m['name'], json.dumps(run(m)), flush=True)
    # restore evidence of the real tree is the caller's job (checks rewrite evidence files)
