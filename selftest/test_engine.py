"""engine self-tests: path counts, failure detection, concretisation, cross-validation, parallel == sequential"""
import sys, os
sys.path.insert(0, os.path.dirname(os.path.dirname(os.path.abspath(__file__))))
from symx import explore, SymInt, sym_ite
import math

def sc_abs(src):
    x = src.int('x', -5, 5)
    y = x if x >= 0 else -x
    src.check('nonneg', y >= 0)
    src.obs('y', y)

def sc_bug(src):
    x = src.int('x', 0, 1000)
    y = src.int('y', 0, 1000)
    src.check('sum', (x + y != 1337) | (x < 500))

def sc_conc(src):
    x = src.int('x', 0, 6)
    d = {0: 'a', 1: 'b', 2: 'c', 3: 'd', 4: 'e', 5: 'f', 6: 'g'}
    v = d[x]
    src.obs('v', v)
    src.check('in', v in 'abcdefg')

def sc_choice(src):
    import enum
    class E(enum.Enum):
        A, B, C = range(3)
    sc_choice.E = E
    c = src.choice('c', list(E))
    s = src.subset('s', ['p', 'q', 'r'])
    n = 0
    if c == E.A:
        n += 1
    if c in [E.B, E.C]:
        n += 2
    src.check('one', n in (1, 2))
    src.obs('name', c.name)
    k = sum(1 for _ in s)
    src.check('size', len(s) == k)
    src.obs('k', k)

def sc_real(src):
    secs = src.real('secs', 0, 3600)
    k = math.ceil(secs / 5)
    src.check('ceil', (k * 5 >= secs) & ((k - 1) * 5 < secs))
    src.obs('k', k)

def sc_exc(src):
    x = src.int('x', 0, 3)
    l = [1, 2, 3]
    src.obs('v', l[x])

def sc_many(src):
    n = 0
    for i in range(10):
        if src.flag(f'b{i}'):
            n += 1
    src.check('n', n <= 10)
    src.reach('end')

def main():
    r = explore(sc_abs, harness='abs', workers=1)
    assert r.paths == 2 and not r.failures and r.validated == 2 and not r.errors, (r.paths, r.failures, r.errors)
    r = explore(sc_bug, harness='bug', workers=1)
    assert len(r.failures) == 1, r.failures
    f = list(r.failures.values())[0]
    assert f['inputs']['x'] + f['inputs']['y'] == 1337 and f['inputs']['x'] >= 500, f
    r = explore(sc_conc, harness='conc', workers=1)
    assert r.paths == 7 and not r.failures and not r.errors, (r.paths, r.errors)
    r = explore(sc_choice, harness='choice', workers=1)
    assert not r.failures and not r.errors, (r.failures, r.errors)
    r = explore(sc_real, harness='real', workers=1)
    assert not r.failures and not r.errors, (r.failures, r.errors)
    r = explore(sc_exc, harness='exc', workers=1)
    assert list(r.failures) == ['exc:exception:IndexError:site=test_engine.py:sc_exc'], r.failures
    r1 = explore(sc_many, harness='many', workers=1, validate_every=0)
    r2 = explore(sc_many, harness='many', workers=8, validate_every=0)
    assert r1.paths == r2.paths == 1024, (r1.paths, r2.paths)
    assert r1.reached == r2.reached
    print('engine self-test ok', r1.wall_s, r2.wall_s, r1.checks, r2.checks)

if __name__ == '__main__':
    main()
