"""Documented life cycle of a Supvisors instance as seen by a peer (C07), from the property statement."""
GRAPH = {
    'STOPPED': {'CHECKING'},
    'CHECKING': {'STOPPED', 'CHECKED', 'FAILED', 'ISOLATED'},
    'CHECKED': {'RUNNING', 'FAILED'},
    'RUNNING': {'FAILED'},
    'FAILED': {'STOPPED', 'ISOLATED'},
    'ISOLATED': set(),
}
ACTIVE = ('CHECKING', 'CHECKED', 'RUNNING', 'FAILED')
WORKING = ('ELECTION', 'DISTRIBUTION', 'OPERATION', 'CONCILIATION')


def is_edge(a, b):
    return b in GRAPH[a]
