"""Independent statement of C15 (application state, major / minor failure, formula semantics)."""
STOPPED, STARTING, RUNNING, BACKOFF, STOPPING, EXITED, FATAL, UNKNOWN = 0, 10, 20, 30, 40, 100, 200, 1000
ALL_STATES = (STOPPED, STARTING, RUNNING, BACKOFF, STOPPING, EXITED, FATAL, UNKNOWN)


def app_state(displayed):
    if any(s == STOPPING for s in displayed):
        return 'STOPPING'
    if any(s == STARTING or s == BACKOFF for s in displayed):
        return 'STARTING'
    if any(s == RUNNING for s in displayed):
        return 'RUNNING'
    return 'STOPPED'


def failing(state, expected_exit):
    return state == FATAL or state == UNKNOWN or (state == EXITED and not expected_exit)


def required_status(procs, managed):
    """procs: list of dicts(state, expected_exit, required); returns (major, minor)"""
    st = app_state([p['state'] for p in procs])
    major = False
    for p in procs:
        if p['required'] and (failing(p['state'], p['expected_exit']) or (p['state'] == STOPPED and st != 'STOPPED')):
            major = True
    minor = False
    if not major and managed:
        for p in procs:
            if not p['required'] and failing(p['state'], p['expected_exit']):
                minor = True
    return major, minor


def operational(state, expected_exit):
    """truth value of a process name inside a formula"""
    return state in (STARTING, RUNNING, BACKOFF) or (state == EXITED and expected_exit)


class Unresolved(Exception):
    pass


def eval_formula(tree, values, matches):
    """tree: ('name', n) | ('pattern', p) | ('and', a, b) | ('or', a, b) | ('not', a) | ('any', a) | ('all', a)
    values: {process name: bool}; matches: {pattern: [process names]}.  Returns bool or a list of bool;
    raises Unresolved where the statement says the formula yields a major failure"""
    kind = tree[0]
    if kind == 'name':
        return values[tree[1]]
    if kind == 'pattern':
        names = matches[tree[1]]
        if not names:
            raise Unresolved('no match')
        if len(names) == 1:
            return values[names[0]]
        return [values[n] for n in names]
    if kind in ('and', 'or'):
        a = eval_formula(tree[1], values, matches)
        b = eval_formula(tree[2], values, matches)
        if isinstance(a, list) or isinstance(b, list):
            raise Unresolved('operator on a list')
        return (a and b) if kind == 'and' else (a or b)
    if kind == 'not':
        a = eval_formula(tree[1], values, matches)
        if isinstance(a, list):
            raise Unresolved('not on a list')
        return not a
    if kind in ('any', 'all'):
        a = eval_formula(tree[1], values, matches)
        if not isinstance(a, list):
            a = [a]
        return any(a) if kind == 'any' else all(a)
    raise Unresolved(kind)


def unparse(tree):
    kind = tree[0]
    if kind in ('name', 'pattern'):
        return repr(tree[1])
    if kind in ('and', 'or'):
        return f'({unparse(tree[1])} {kind} {unparse(tree[2])})'
    if kind == 'not':
        return f'(not {unparse(tree[1])})'
    return f'{kind}({unparse(tree[1])})'
