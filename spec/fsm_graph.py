"""Documented Supvisors state graph (C02), written from the property statement and docs/dashboard.rst."""

GRAPH = {
    'OFF': {'SYNCHRONIZATION'},
    'SYNCHRONIZATION': {'OFF', 'ELECTION'},
    'ELECTION': {'OFF', 'SYNCHRONIZATION', 'DISTRIBUTION', 'SHUTTING_DOWN'},
    'DISTRIBUTION': {'OFF', 'SYNCHRONIZATION', 'ELECTION', 'OPERATION', 'RESTARTING', 'SHUTTING_DOWN'},
    'OPERATION': {'OFF', 'SYNCHRONIZATION', 'ELECTION', 'CONCILIATION', 'RESTARTING', 'SHUTTING_DOWN'},
    'CONCILIATION': {'OFF', 'SYNCHRONIZATION', 'ELECTION', 'OPERATION', 'RESTARTING', 'SHUTTING_DOWN'},
    'RESTARTING': {'FINAL'},
    'SHUTTING_DOWN': {'FINAL'},
    'FINAL': set(),
}
NEED_MASTER = ('DISTRIBUTION', 'OPERATION', 'CONCILIATION', 'RESTARTING', 'SHUTTING_DOWN')

# a non-Master enters X only after its Master has: the Master's last published state is X, or a state that the
# Master can only have reached through X
AFTER = {
    'DISTRIBUTION': {'DISTRIBUTION', 'OPERATION', 'CONCILIATION'},
    'OPERATION': {'OPERATION', 'CONCILIATION'},
    'CONCILIATION': {'CONCILIATION', 'OPERATION'},
    'RESTARTING': {'RESTARTING', 'FINAL'},
    'SHUTTING_DOWN': {'SHUTTING_DOWN', 'FINAL'},
}


def is_edge(a, b):
    return b in GRAPH[a]
