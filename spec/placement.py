"""Independent oracle for C04/C14 written from the property statements.

A situation is described by plain data (possibly symbolic numbers / booleans):
  n            number of instances (index = declared order)
  node[i]      node index of instance i
  running[i]   the requester sees instance i RUNNING
  known[i]     the Supervisor of i knows the program; enabled[i] the program is enabled there
  permitted    ordered list of instance indexes permitted by the applicable identifiers rule (declared order
               of the rule, or the declared order of the instances for '*')
  load[i]      expected_loading of everything running on instance i
  pend[i]      starts already requested on instance i
  L            expected_loading of the program
"""


def node_load(s, i):
    return sum(s['load'][j] + s['pend'][j] for j in range(s['n']) if s['node'][j] == s['node'][i])


def instance_load(s, i):
    return s['load'][i] + s['pend'][i]


def eligible(s):
    """ordered list (rule order) of eligible instance indexes"""
    out = []
    for i in s['permitted']:
        if s['running'][i] and s['known'][i] and s['enabled'][i] and node_load(s, i) + s['L'] <= 100:
            out.append(i)
    return out


def check_choice(s, strategy, chosen, local=0):
    """returns None if `chosen` (index or None) is an allowed outcome, else a short reason"""
    elig = eligible(s)
    if strategy == 'LOCAL':
        if chosen is None:
            return None if local not in elig else 'LOCAL: the requester is eligible but nothing was chosen'
        return None if (chosen == local and local in elig) else 'LOCAL: chose something else than the eligible requester'
    if chosen is None:
        return None if not elig else 'nothing chosen although an instance is eligible'
    if chosen not in elig:
        return 'chosen instance is not eligible'
    il, nl = instance_load, node_load
    for j in elig:
        if j == chosen:
            continue
        if strategy == 'CONFIG':
            better = elig.index(j) < elig.index(chosen)
        elif strategy == 'LESS_LOADED':
            better = (il(s, j) < il(s, chosen)) or (il(s, j) == il(s, chosen) and nl(s, j) < nl(s, chosen))
        elif strategy == 'MOST_LOADED':
            better = (il(s, j) > il(s, chosen)) or (il(s, j) == il(s, chosen) and nl(s, j) > nl(s, chosen))
        elif strategy == 'LESS_LOADED_NODE':
            better = (nl(s, j) < nl(s, chosen)) or (nl(s, j) == nl(s, chosen) and il(s, j) < il(s, chosen))
        elif strategy == 'MOST_LOADED_NODE':
            better = (nl(s, j) > nl(s, chosen)) or (nl(s, j) == nl(s, chosen) and il(s, j) > il(s, chosen))
        else:
            return f'unknown strategy {strategy}'
        if better:
            return f'{strategy}: instance {j} is strictly better than the chosen {chosen}'
    return None
