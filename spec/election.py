"""Independent statement of the Master selection rule (C01), from the property statement and docs/special.rst."""


def candidates(running, declared):
    """running: identifiers seen RUNNING locally; declared: {identifier: master it declares ('' if none)}"""
    recognised = {declared[i] for i in running if declared.get(i)}
    return recognised if recognised else set(running)


def allowed_masters(running, declared, core, nick):
    """set of identifiers the rule allows as the selected Master (core: ordered core identifiers, nick: id -> nick)"""
    cand = candidates(running, declared)
    if not cand:
        return set()
    core_cand = [i for i in core if i in cand]
    pool = core_cand if core_cand else sorted(cand)
    best = min(nick[i] for i in pool)
    return {i for i in pool if nick[i] == best}


def stable_running(views):
    """views: list of {identifier: state name} of the instances seen RUNNING locally (own view included).
    Returns the common set of RUNNING identifiers if every view is stable and they all agree, else None"""
    sets = []
    for v in views:
        if any(s in ('CHECKING', 'CHECKED', 'FAILED') for s in v.values()):
            return None
        sets.append({i for i, s in v.items() if s == 'RUNNING'})
    if not sets or any(s != sets[0] for s in sets) or not sets[0]:
        return None
    return sets[0]
