"""Independent model of C11, written from the property statement (never imports the code under test).

Per instance the model keeps the latest report (state, expected flag), whether the instance is listed as running,
and the local reception rank of that report.  The process status is a pure function of that table."""

STOPPED, STARTING, RUNNING, BACKOFF, STOPPING, EXITED, FATAL, UNKNOWN = 0, 10, 20, 30, 40, 100, 200, 1000
ALL_STATES = (STOPPED, STARTING, RUNNING, BACKOFF, STOPPING, EXITED, FATAL, UNKNOWN)
RUNNING_LIKE = (STARTING, RUNNING, BACKOFF)
STOPPED_LIKE = (STOPPED, EXITED, FATAL, UNKNOWN)
# "the most advanced running state under conflict"
ADVANCE_ORDER = (RUNNING, STARTING, BACKOFF, STOPPING)


class Entry:
    def __init__(self, state, expected, listed, rank):
        self.state, self.expected, self.listed, self.rank = state, expected, listed, rank


class ProcessModel:
    def __init__(self):
        self.entries = {}     # identifier -> Entry
        self.rank = 0
        self.forced = None    # forced state or None

    def _report(self, ident, state, expected):
        self.rank += 1
        old = self.entries.get(ident)
        was_listed = bool(old and old.listed)
        if state in RUNNING_LIKE:
            listed = True
        elif state in STOPPED_LIKE:
            listed = False
        else:   # STOPPING: stays listed until a stopped state is reported
            listed = was_listed
        self.entries[ident] = Entry(state, expected, listed, self.rank)

    # --- operations of the statement
    def snapshot(self, ident, state, expected):
        self._report(ident, state, expected)

    def event(self, ident, state, expected):
        self._report(ident, state, expected)
        self.forced = None          # overrides the display until the next event received for that process

    def lose(self, ident):
        """instance lost: what ran there becomes FATAL, other entries untouched"""
        e = self.entries.get(ident)
        if e is not None and e.listed:
            self._report(ident, FATAL, False)
            return True
        return False

    def remove(self, ident):
        self.entries.pop(ident, None)

    # --- synthesis
    def running_on(self):
        return {i for i, e in self.entries.items() if e.listed}     # identifiers are concrete strings

    def conflict(self):
        return len(self.running_on()) >= 2

    def allowed_states(self):
        """set of states the statement allows for display (before forcing)"""
        listed = [e for e in self.entries.values() if e.listed]
        if len(listed) >= 2:
            states = [e.state for e in listed]
            if RUNNING in states:
                return [RUNNING]
            # the statement does not order STARTING and BACKOFF: either is "the most advanced"
            both = [s for s in (STARTING, BACKOFF) if s in states]
            return both or [STOPPING]
        return [self.state()]

    def state(self):
        listed = [e for e in self.entries.values() if e.listed]
        if len(listed) >= 2:
            states = [e.state for e in listed]
            return next(s for s in ADVANCE_ORDER if s in states)
        if len(listed) == 1:
            return listed[0].state
        if any(e.state == STOPPING for e in self.entries.values()):
            return STOPPING
        if not self.entries:
            return None
        return max(self.entries.values(), key=lambda e: e.rank).state

    def expected_exit(self):
        listed = [e for e in self.entries.values() if e.listed]
        if listed or any(e.state == STOPPING for e in self.entries.values()) or not self.entries:
            return True
        return max(self.entries.values(), key=lambda e: e.rank).expected

    def displayed(self):
        return self.state() if self.forced is None else self.forced
