"""Documented availability of the Supvisors XML-RPCs per Supvisors state (C17), from the property statement and
docs/xml_rpc.rst / docs/dashboard.rst."""
ALL = ('OFF', 'SYNCHRONIZATION', 'ELECTION', 'DISTRIBUTION', 'OPERATION', 'CONCILIATION', 'RESTARTING',
       'SHUTTING_DOWN', 'FINAL')
FROM_DISTRIBUTION = ('DISTRIBUTION', 'OPERATION', 'CONCILIATION', 'RESTARTING', 'SHUTTING_DOWN', 'FINAL')
OPERATION = ('OPERATION',)
OPERATION_CONCILIATION = ('OPERATION', 'CONCILIATION')
CONCILIATION = ('CONCILIATION',)
SYNCHRONIZATION = ('SYNCHRONIZATION',)

GATE = {
    # always available
    'get_api_version': ALL, 'get_supvisors_state': ALL, 'get_master_identifier': ALL, 'get_strategies': ALL,
    'get_all_instances_info': ALL, 'get_instance_info': ALL, 'get_all_instances_state_modes': ALL,
    'get_instance_state_modes': ALL, 'get_network_info': ALL, 'get_statistics_status': ALL,
    'get_all_local_process_info': ALL, 'get_local_process_info': ALL, 'get_all_inner_process_info': ALL,
    'get_inner_process_info': ALL,
    # status queries from DISTRIBUTION on
    'get_all_applications_info': FROM_DISTRIBUTION, 'get_application_info': FROM_DISTRIBUTION,
    'get_application_rules': FROM_DISTRIBUTION, 'get_all_process_info': FROM_DISTRIBUTION,
    'get_process_info': FROM_DISTRIBUTION, 'get_process_rules': FROM_DISTRIBUTION, 'get_conflicts': FROM_DISTRIBUTION,
    # commands
    'start_application': OPERATION, 'test_start_application': OPERATION, 'restart_application': OPERATION,
    'start_process': OPERATION, 'test_start_process': OPERATION, 'start_any_process': OPERATION,
    'restart_process': OPERATION, 'update_numprocs': OPERATION, 'enable': OPERATION, 'disable': OPERATION,
    'restart_sequence': OPERATION,
    'stop_application': OPERATION_CONCILIATION, 'stop_process': OPERATION_CONCILIATION,
    'conciliate': CONCILIATION,
    'end_sync': SYNCHRONIZATION,
    'restart': FROM_DISTRIBUTION, 'shutdown': FROM_DISTRIBUTION,
}
