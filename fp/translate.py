"""AST -> SMT-LIB (QF_FP, Float64, round-nearest-even) translation of the arithmetic kernels of statscompiler.

The source of the real function is read with inspect at run time; the translated expression is the one found in the
current working tree (a change of the arithmetic changes the query)."""
import ast
import inspect
import struct
import textwrap


def f64(x):
    """SMT-LIB literal of a python float"""
    bits = struct.unpack('>Q', struct.pack('>d', float(x)))[0]
    return f'(fp #b{bits >> 63:01b} #b{(bits >> 52) & 0x7ff:011b} #b{bits & ((1 << 52) - 1):052b})'


class Translator(ast.NodeVisitor):
    """expression -> SMT-LIB term; names are Float64 variables unless bound in `env` (name -> term)"""
    OPS = {ast.Add: 'fp.add RNE', ast.Sub: 'fp.sub RNE', ast.Mult: 'fp.mul RNE', ast.Div: 'fp.div RNE'}

    def __init__(self, env=None):
        self.env = dict(env or {})
        self.free = []

    def visit_BinOp(self, node):
        op = self.OPS.get(type(node.op))
        if op is None:
            raise NotImplementedError(ast.dump(node.op))
        return f'({op} {self.visit(node.left)} {self.visit(node.right)})'

    def visit_Constant(self, node):
        if isinstance(node.value, (int, float)) and not isinstance(node.value, bool):
            return f64(node.value)
        raise NotImplementedError(repr(node.value))

    def visit_Name(self, node):
        if node.id in self.env:
            return self.env[node.id]
        if node.id not in self.free:
            self.free.append(node.id)
        return node.id

    def visit_UnaryOp(self, node):
        if isinstance(node.op, ast.USub):
            return f'(fp.neg {self.visit(node.operand)})'
        raise NotImplementedError(ast.dump(node.op))

    def generic_visit(self, node):
        raise NotImplementedError(ast.dump(node))


def function_tree(fn):
    return ast.parse(textwrap.dedent(inspect.getsource(fn))).body[0]


def cpu_expression(fn):
    """the value appended for one core in cpu_statistics, local assignments inlined whatever their names;
    returns (term, guard term or None, [latest work, latest idle, ref work, ref idle] names, text)"""
    tree = function_tree(fn)
    loop = next(n for n in ast.walk(tree) if isinstance(n, ast.For))
    target = loop.target
    if not (isinstance(target, ast.Tuple) and len(target.elts) == 2
            and all(isinstance(t, ast.Tuple) and len(t.elts) == 2 and all(isinstance(x, ast.Name) for x in t.elts)
                    for t in target.elts)):
        raise NotImplementedError('cpu_statistics: loop target is not ((work, idle), (work, idle))')
    names = [x.id for t in target.elts for x in t.elts]
    env_nodes = {}
    append = None
    for stmt in ast.walk(loop):
        if isinstance(stmt, ast.Assign) and isinstance(stmt.targets[0], ast.Name):
            env_nodes[stmt.targets[0].id] = stmt.value
        elif isinstance(stmt, ast.Call) and isinstance(stmt.func, ast.Attribute) and stmt.func.attr == 'append':
            append = stmt.args[0]
    if append is None:
        raise NotImplementedError('cpu_statistics: append not found')
    if isinstance(append, ast.IfExp):
        guard, value = append.test, append.body
    else:
        guard, value = None, append
    tr = LazyTranslator(env_nodes)
    term = tr.visit(value)
    gterm = None
    if guard is not None:
        if not isinstance(guard, ast.Name):
            raise NotImplementedError('cpu_statistics: guard is not a plain name')
        gterm = tr.visit(guard)
    unknown = [n for n in tr.free if n not in names]
    if unknown:
        raise NotImplementedError(f'cpu_statistics: free variables {unknown}')
    return term, gterm, names, ast.unparse(value)


def io_expression(fn):
    """the rates computed by io_statistics: one (term, free variables, text) per element of the stored list, local
    assignments inlined whatever their names"""
    tree = function_tree(fn)
    env_nodes = {}
    elements = None
    for n in ast.walk(tree):
        if isinstance(n, ast.Assign) and isinstance(n.targets[0], ast.Name):
            env_nodes[n.targets[0].id] = n.value
        if isinstance(n, ast.Assign) and isinstance(n.targets[0], ast.Subscript) \
                and isinstance(n.value, (ast.List, ast.Tuple)):
            elements = n.value.elts
    if not elements:
        raise NotImplementedError('io_statistics: rate expressions not found')
    out = []
    for elt in elements:
        tr = LazyTranslator(env_nodes)
        out.append((tr.visit(elt), tr.free, ast.unparse(elt)))
    return out


class LazyTranslator(Translator):
    """names assigned from an arithmetic expression in the function are inlined on demand"""

    def __init__(self, nodes):
        super().__init__()
        self.nodes = nodes
        self.active = set()

    def visit_Name(self, node):
        value = self.nodes.get(node.id)
        if value is not None and node.id not in self.active and isinstance(value, (ast.BinOp, ast.UnaryOp,
                                                                                  ast.Constant, ast.Name)):
            self.active.add(node.id)
            try:
                return self.visit(value)
            finally:
                self.active.discard(node.id)
        return super().visit_Name(node)


def proc_expression(fn):
    """100.0 * proc_cpu of ProcStatisticsInstance.integrate, on scalar variables"""
    tree = function_tree(fn)
    assign = next(n for n in ast.walk(tree) if isinstance(n, ast.Assign))
    ret = next(n for n in ast.walk(tree) if isinstance(n, ast.Return))

    class Scalar(ast.NodeTransformer):
        def visit_Subscript(self, node):
            base = ast.unparse(node.value).replace('self.', '').replace('.', '_')
            key = node.slice.value if isinstance(node.slice, ast.Constant) else ast.unparse(node.slice)
            return ast.Name(id=f'{base}_{key}', ctx=ast.Load())
    tr = Translator()
    tr.env[assign.targets[0].id] = tr.visit(Scalar().visit(assign.value))
    first = ret.value.elts[0]
    return tr.visit(Scalar().visit(first)), tr.free, ast.unparse(first)
