"""runs an SMT-LIB query on the cvc5 and z3 binaries (in parallel) under a time cap"""
import os
import re
import struct
import subprocess
import tempfile
import time


def _run(cmd, path, cap):
    t0 = time.time()
    try:
        p = subprocess.run(cmd + [path], capture_output=True, text=True, timeout=cap)
        out = p.stdout + p.stderr
    except subprocess.TimeoutExpired:
        return {'verdict': 'timeout', 'wall_s': round(time.time() - t0, 1), 'output': ''}
    verdict = 'unknown'
    lines = out.split('\n')
    for k, line in enumerate(lines):
        if line.strip() in ('sat', 'unsat', 'unknown'):
            verdict = line.strip()
            # an error before the verdict (a dropped assertion, a parse problem) makes the answer inconclusive;
            # after `unsat` the only possible error is the refused (get-value), which is expected
            if any('(error' in x for x in lines[:k]) or (verdict == 'sat' and any('(error' in x for x in lines[k:])):
                verdict = 'error'
            break
    else:
        if '(error' in out:
            verdict = 'error'
    return {'verdict': verdict, 'wall_s': round(time.time() - t0, 1), 'output': out}


def parse_model(out, names):
    """values of Float64 variables from a (get-value ...) answer in binary fp notation"""
    vals = {}
    for name in names:
        m = re.search(r'\(\s*' + re.escape(name) + r'\s+\(fp\s+#b([01])\s+#b([01]{11})\s+#b([01]{52})\)', out)
        if m:
            bits = int(m.group(1) + m.group(2) + m.group(3), 2)
            vals[name] = struct.unpack('>d', struct.pack('>Q', bits))[0]
            continue
        m = re.search(r'\(\s*' + re.escape(name) + r'\s+\(_\s+([+-])zero', out)
        if m:
            vals[name] = 0.0 if m.group(1) == '+' else -0.0
    return vals


def solve(text, names, cap=120, solvers=('cvc5', 'z3')):
    """returns {solver: result}; both solvers run concurrently"""
    import concurrent.futures
    fd, path = tempfile.mkstemp(suffix='.smt2', prefix='verif_fp_')
    os.write(fd, text.encode())
    os.close(fd)
    cmds = {'cvc5': ['cvc5', '--produce-models', f'--tlimit={cap * 1000}'],
            'z3': ['z3', f'-T:{cap}']}
    try:
        with concurrent.futures.ThreadPoolExecutor(len(solvers)) as ex:
            futs = {s: ex.submit(_run, cmds[s], path, cap + 10) for s in solvers}
            res = {s: f.result() for s, f in futs.items()}
    finally:
        os.remove(path)
    for s, r in res.items():
        r['model'] = parse_model(r.pop('output'), names) if r['verdict'] == 'sat' else None
    return res
