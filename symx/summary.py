"""Function summaries (DESIGN.md 3.4): all inner paths of a *pure* query method are explored once, under the domain
constraints of its symbolic inputs only, and merged into one symbolic value; products of independent queries
become sums.  The real method body is what runs - only the forking is folded into a formula.

A summary is cached per distinct tuple of symbolic inputs (z3 term ids are stable: constants are cached for the
whole run), so it is computed once per worker process.  Soundness rests on (i) the method being pure and (ii) the
key function naming every symbolic input; both are checked on every run by the concrete cross-validation of the
engine and by running the harness with summaries disabled on its quick bound (runner option --no-summaries)."""
import os

import z3

from . import proxies
from .proxies import SymBool, SymInt, SymChoice, SymSet
from .engine import Engine, PathEnd, HarnessError

_CACHE = {}
ENABLED = [os.environ.get('VERIF_NO_SUMMARIES') != '1']
STATS = {'computed': 0, 'hits': 0, 'inner_paths': 0}
# fallback mode (runner): the merged value is turned back into a plain bool / set by forking on its terms, so that code
# which handles it in a way no proxy can follow (set.intersection(*views), type(x) is set, C extensions) still runs
CONCRETE = [os.environ.get('VERIF_CONCRETE_SUMMARIES') == '1']


def _explore_inner(fn, args, domain):
    """all feasible inner paths of fn(*args) under `domain`; returns [(path condition term, result)] or None"""
    outer = proxies._ENGINE[0]
    sub = Engine(0)
    sub.solver.add(*domain)
    outcomes = []
    proxies._ENGINE[0] = sub
    try:
        while True:
            sub.begin_path()
            sub._pc = []
            try:
                r = _normalize(fn(*args))
                outcomes.append((list(sub._asserted), r))
            except PathEnd:
                pass
            except Exception:
                if os.environ.get('VERIF_DEBUG'):
                    import traceback
                    traceback.print_exc()
                return None
            finally:
                sub.end_path()
            if not sub.backtrack():
                break
            if len(outcomes) > 5000:
                return None
    finally:
        proxies._ENGINE[0] = outer
        if outer is not None:
            outer.checks += sub.checks
            outer.sat += sub.sat
            outer.unsat += sub.unsat
            outer.solver_s += sub.solver_s
            outer.decisions += sub.decisions
    STATS['inner_paths'] += len(outcomes)
    return outcomes


def _normalize(r):
    """make the result of one inner path concrete where the path already decided it (elements of sets)"""
    if isinstance(r, (set, frozenset, list, tuple)):
        return type(r)(x.conc() if isinstance(x, SymChoice) else x for x in r)
    if isinstance(r, SymChoice):
        return r.conc()
    return r


def _pc(conds):
    return z3.And(conds) if len(conds) > 1 else (conds[0] if conds else z3.BoolVal(True))


def _merge(outcomes, universe=None):
    rs = [r for _, r in outcomes]
    if all(isinstance(r, (bool, SymBool)) for r in rs):
        terms = []
        for pc, r in outcomes:
            if isinstance(r, SymBool):
                terms.append(z3.And(_pc(pc), r.e))
            elif r:
                terms.append(_pc(pc))
        return SymBool((z3.Or(terms) if len(terms) > 1 else terms[0]) if terms else z3.BoolVal(False))
    if all(isinstance(r, (set, frozenset)) for r in rs):
        uni = list(universe) if universe is not None else sorted(set().union(*rs), key=repr)
        mem = {}
        for k in uni:
            terms = [_pc(pc) for pc, r in outcomes if k in r]
            mem[k] = (z3.Or(terms) if len(terms) > 1 else terms[0]) if terms else z3.BoolVal(False)
        return SymSet(mem)
    return None


def summarized(fn, keyfn, universe=None):
    """wrap the real function `fn`; keyfn(*args) -> (hashable key, [domain constraint terms]) or None"""
    def wrapper(*args):
        if not ENABLED[0] or proxies._ENGINE[0] is None:
            return fn(*args)
        k = keyfn(*args)
        if k is None:
            return fn(*args)
        key, domain = k
        key = (fn.__qualname__, key)
        hit = _CACHE.get(key)
        if hit is None:
            outcomes = _explore_inner(fn, args, domain)
            merged = _merge(outcomes, universe(*args) if callable(universe) else universe) if outcomes else None
            hit = _CACHE[key] = (merged,)
            STATS['computed'] += 1
        else:
            STATS['hits'] += 1
        if hit[0] is None:
            return fn(*args)
        r = hit[0]
        if CONCRETE[0]:
            if isinstance(r, SymSet):
                return {k for k, term in r.mem.items() if proxies.eng().branch(term)}
            if isinstance(r, SymBool):
                return bool(r)
        return r.copy() if isinstance(r, SymSet) else r
    wrapper.__wrapped__ = fn
    wrapper.__name__ = getattr(fn, '__name__', 'summarized')
    return wrapper


def choice_key(items):
    """key/domain helper: items = iterable of (label, value) where value may be a SymChoice / SymBool / concrete"""
    key, domain = [], []
    sym = False
    for label, v in items:
        if isinstance(v, SymChoice):
            key.append((label, 'c', v.e.get_id(), len(v.values)))
            domain.append(z3.And(v.e >= 0, v.e < len(v.values)))
            sym = True
        elif isinstance(v, SymBool):
            key.append((label, 'b', v.e.get_id()))
            sym = True
        elif isinstance(v, SymInt):
            return None
        else:
            key.append((label, 'k', repr(v)))
    if not sym:
        return None
    return tuple(key), domain
