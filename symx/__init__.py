"""symx - dynamic symbolic execution of real Python code with z3.

The code under test runs unmodified on *proxy* values (SymBool, SymInt, SymReal, SymChoice, SymSet) that wrap z3
terms.  Whenever Python needs a concrete truth value (``if``, ``and``, ``in``, ``min`` ...) the engine asks z3 which
sides are feasible under the current path condition, prunes the infeasible ones and records the decision; the
scenario is re-executed once per feasible path (depth-first over the decision log), so that *every* feasible path
within the bounds declared by the harness is visited, or a counterexample model is produced.

See DESIGN.md section 3.1-3.3.
"""
from .engine import (Engine, PathEnd, HarnessError, CheckFailed, SymSrc, ConcSrc, explore, replay_inputs,
                     ExploreResult)
from .proxies import (SymBool, SymInt, SymReal, SymChoice, SymSet, is_sym, sym_ite, ssize, scontains, snot, sor,
                      sand)
