"""Path exploration engine: depth-first over a decision log, by re-execution, with one incremental z3 solver."""
import hashlib
import json
import multiprocessing
import signal
import os
import random
import sys
import time as _time_mod
import traceback


class time:     # the real clock, bound at import: harnesses patch time.time / time.monotonic for the code under test
    time = staticmethod(_time_mod.time)
    perf_counter = staticmethod(_time_mod.perf_counter)

from fractions import Fraction

import z3

from . import proxies
from .proxies import SymBool, SymInt, SymReal, SymChoice, SymSet, is_sym


class PathEnd(BaseException):
    """End of the current path (infeasible assumption, recorded failure, frontier)."""


class _Frontier(PathEnd):
    pass


class PathTimeout(BaseException):
    """One path runs for longer than PATH_LIMIT_S: the code under test does not terminate on these inputs (BaseException
    so that the last-resort `except Exception` guards of the code under test do not swallow it)."""


PATH_LIMIT_S = float(os.environ.get('VERIF_PATH_LIMIT') or 10)


_ARMED = [False]


def _on_alarm(signum, frame):
    if _ARMED[0]:
        raise PathTimeout()


class _Watchdog:
    """the timer repeats every second after the limit: an exception raised while a destructor or a ctypes callback runs
    is swallowed by the interpreter, the next one lands in ordinary code"""
    def __enter__(self):
        try:
            signal.signal(signal.SIGALRM, _on_alarm)
            _ARMED[0] = True
            signal.setitimer(signal.ITIMER_REAL, PATH_LIMIT_S, 1.0)
            self.armed = True
        except ValueError:          # not in the main thread
            self.armed = False

    def __exit__(self, *exc):
        _ARMED[0] = False
        if self.armed:
            signal.setitimer(signal.ITIMER_REAL, 0)
        return False


class HarnessError(Exception):
    """The machinery itself is wrong (divergent replay, vacuity, non-reproducing counterexample)."""


class CheckFailed(BaseException):
    """Raised by ConcSrc.check when an assertion fails in a concrete run."""
    def __init__(self, tag, ctx):
        super().__init__(tag)
        self.tag, self.ctx = tag, ctx


def _pyval(v):
    """z3 value -> picklable python value"""
    if z3.is_int_value(v):
        return v.as_long()
    if z3.is_rational_value(v):
        return Fraction(v.numerator_as_long(), v.denominator_as_long())
    if z3.is_true(v):
        return True
    if z3.is_false(v):
        return False
    if z3.is_algebraic_value(v):
        return Fraction(v.approx(20).numerator_as_long(), v.approx(20).denominator_as_long())
    raise HarnessError(f'cannot concretise {v}')


def _z3val(pv, sort_kind):
    if sort_kind == z3.Z3_BOOL_SORT:
        return z3.BoolVal(bool(pv))
    if sort_kind == z3.Z3_REAL_SORT:
        return z3.RealVal(pv)
    return z3.IntVal(pv)


_TRUE = z3.BoolVal(True)
_FALSE = z3.BoolVal(False)
_TRUE_ID = _TRUE.get_id()
_FALSE_ID = _FALSE.get_id()
_NOTC = {}


def _not(cond, cid):
    hit = _NOTC.get(cid)
    if hit is None:
        hit = _NOTC[cid] = (z3.Not(cond), cond)
    return hit[0]


class Engine:
    def __init__(self, seed=0):
        self.solver = z3.Solver()
        self.solver.set('random_seed', seed % 1000)
        self.seed = seed
        self.prefix = []       # entries [choice, alt_open, value]
        self.fixed = 0         # entries below this index are never flipped (worker sub-tree root)
        self.pos = 0
        self.frontier = None   # depth at which new decisions raise _Frontier (parent expansion only)
        self._model = None
        self.checks = 0
        self.sat = self.unsat = self.unknown = 0
        self.solver_s = 0.0
        self.decisions = 0
        self.naux = 0
        self._pending = []
        self._facts = {}
        self._values = {}
        self._alive = []
        self.inputs = []       # (name, kind, meta, z3 vars) declared on the current path
        self.merge_depth = 0

    # --- solver plumbing
    def _flush(self):
        if self._pending:
            ctx, sol = self.solver.ctx.ref(), self.solver.solver
            for c in self._pending:
                z3.Z3_solver_assert(ctx, sol, c.as_ast())
            self._pending = []

    def _check(self, *assumptions):
        self._flush()
        t = time.perf_counter()
        r = self.solver.check(*assumptions)
        self.solver_s += time.perf_counter() - t
        self.checks += 1
        if r == z3.sat:
            self.sat += 1
        elif r == z3.unsat:
            self.unsat += 1
        else:
            self.unknown += 1
        return r

    def model(self):
        if self._model is None:
            r = self._check()
            if r == z3.unsat:
                raise PathEnd()
            if r != z3.sat:
                raise HarnessError('solver returned unknown on a path condition')
            self._model = self.solver.model()
        return self._model

    def assume_expr(self, e):
        self._pending.append(e)
        if self._model is not None and not z3.is_true(self._model.eval(e, model_completion=True)):
            self._model = None

    def assume(self, c):
        """feasibility is checked lazily: the next decision (or the end of the path) asks for a model"""
        if isinstance(c, SymBool):
            self.assume_expr(c.e)
        elif not c:
            raise PathEnd()

    def fresh_aux_int(self, kind):
        self.naux += 1
        return z3.Int(f'_aux_{kind}_{self.naux}')

    # --- decisions
    def _pinned(self, pin, choice):
        if pin is not None and pin[2] == choice:
            self._values[pin[0].get_id()] = pin[1]
            self._alive.append(pin[0])

    def branch(self, cond, pin=None):
        cid = cond.get_id()
        known = self._facts.get(cid)
        if known is not None:
            return known
        if cid == _TRUE_ID:
            return True
        if cid == _FALSE_ID:
            return False
        self._alive.append(cond)
        chash = cond.hash()
        if self.pos < len(self.prefix):
            ent = self.prefix[self.pos]
            choice = ent[0]
            if ent[3] != chash:
                raise HarnessError('replay divergence: a different condition is met at decision %d' % self.pos)
            self.pos += 1
            c = cond if choice else _not(cond, cid)
            self._pending.append(c)
            self._asserted.append(c)
            self._facts[cid] = choice
            self._pinned(pin, choice)
            if self._model is not None:
                if z3.is_true(self._model.eval(cond, model_completion=True)) != choice:
                    self._model = None
            return choice
        if self.frontier is not None and len(self.prefix) >= self.frontier:
            raise _Frontier()
        m = self.model()
        mv = z3.is_true(m.eval(cond, model_completion=True))
        ncond = _not(cond, cid)
        other = ncond if mv else cond
        r = self._check(other)
        other_ok = r != z3.unsat
        # deterministic order: True side first when both are feasible (independent of the model found)
        choice = True if other_ok else mv
        if choice != mv:
            self._model = self.solver.model() if r == z3.sat else None
        self.prefix.append([choice, other_ok, None, chash])
        self.pos += 1
        self.decisions += 1
        c = cond if choice else ncond
        self._pending.append(c)
        self._asserted.append(c)
        self._facts[cid] = choice
        self._pinned(pin, choice)
        return choice

    def concretize(self, e):
        if z3.is_int_value(e) or z3.is_rational_value(e) or z3.is_true(e) or z3.is_false(e):
            return _pyval(e)
        eid = e.get_id()
        if eid in self._values:
            return self._values[eid]
        self._alive.append(e)
        kind = e.sort().kind()
        while True:
            p = self.pos
            is_new = p >= len(self.prefix)
            pv = None if is_new else self.prefix[p][2]
            from_model = pv is None
            if from_model:
                # new decision - or a value that the decided conditions already imply (answered below without
                # consuming a decision; the recorded log has no entry for it)
                pv = _pyval(self.model().eval(e, model_completion=True))
            if kind == z3.Z3_INT_SORT:
                cond = proxies.eq_const(e, pv)
            else:
                cond = e == _z3val(pv, kind)
            r = self.branch(cond)
            if self.pos == p:
                if r:
                    self._values[eid] = pv
                    return pv
                raise HarnessError(f'cannot concretise {e}')
            if is_new:
                self.prefix[p][2] = pv
            elif from_model:
                raise HarnessError('replay divergence: expected a concretisation decision')
            if r:
                self._values[eid] = pv
                return pv

    # --- path bookkeeping
    def begin_path(self):
        self.pos = 0
        self.naux = 0
        self.inputs = []
        self._model = None
        self._pending = []
        self._asserted = []
        self._facts = {}
        self._values = {}
        self._alive = []
        self.solver.push()

    def end_path(self):
        self.solver.pop()
        self._model = None
        self._pending = []
        self._facts = {}
        self._values = {}
        self._alive = []

    def backtrack(self):
        """flip the deepest open decision; False when the (sub-)tree is exhausted"""
        while len(self.prefix) > self.fixed and not self.prefix[-1][1]:
            self.prefix.pop()
        if len(self.prefix) <= self.fixed:
            return False
        last = self.prefix[-1]
        self.prefix[-1] = [not last[0], False, last[2], last[3]]
        return True

    def input_values(self):
        """concrete values of all the inputs declared on this path, from one model of the path condition"""
        m = self.model()
        out = {}
        for name, kind, meta, var in self.inputs:
            if kind == 'subset':
                out[name] = [i for i, b in enumerate(var) if z3.is_true(m.eval(b, model_completion=True))]
            else:
                v = _pyval(m.eval(var, model_completion=True))
                out[name] = str(v) if isinstance(v, Fraction) else v
        return out

    def eval_obs(self, x):
        """evaluate an observation (possibly containing proxies) under the current model"""
        m = self.model()

        def ev(v):
            if isinstance(v, SymBool):
                return z3.is_true(m.eval(v.e, model_completion=True))
            if isinstance(v, SymInt):
                return _pyval(m.eval(v.e, model_completion=True))
            if isinstance(v, SymReal):
                return float(_pyval(m.eval(v.e, model_completion=True)))
            if isinstance(v, SymChoice):
                return ev(v.values[_pyval(m.eval(v.e, model_completion=True))])
            if isinstance(v, SymSet):
                return sorted((ev(k) for k, b in v.mem.items() if z3.is_true(m.eval(b, model_completion=True))),
                              key=repr)
            if isinstance(v, dict):
                return {str(ev(k)): ev(w) for k, w in v.items()}
            if isinstance(v, (list, tuple)):
                return [ev(w) for w in v]
            if isinstance(v, (set, frozenset)):
                return sorted((ev(w) for w in v), key=repr)
            if isinstance(v, Fraction):
                return float(v)
            if hasattr(v, 'name') and hasattr(v, 'value') and type(v).__module__ != 'builtins':
                return getattr(v, 'name')
            return v
        return ev(x)


# ------------------------------------------------------------------------------------------------ sources
class _SrcBase:
    symbolic = False

    def reach(self, tag):
        self.reached.add(tag)

    def obs(self, name, value):
        self.observations.append((name, value))


_VARS = {}


def _cached_var(key, mk, mkc):
    """z3 constants and their domain constraints are built once and reused by every path"""
    hit = _VARS.get(key)
    if hit is None:
        v = mk()
        hit = _VARS[key] = (v, mkc(v) if mkc else None)
    return hit


class SymSrc(_SrcBase):
    """hands out proxies"""
    symbolic = True

    def __init__(self, engine):
        self.eng = engine
        self.reached = set()
        self.observations = []
        self.failure = None

    def _declare(self, name, kind, meta, var):
        for n, *_ in self.eng.inputs:
            if n == name:
                raise HarnessError(f'duplicate input name {name}')
        self.eng.inputs.append((name, kind, meta, var))

    def int(self, name, lo, hi):
        v, c = _cached_var(('int', name, lo, hi), lambda: z3.Int(name), lambda v: z3.And(v >= lo, v <= hi))
        self._declare(name, 'int', (lo, hi), v)
        self.eng.assume_expr(c)
        return SymInt(v)

    def int_in(self, name, domain, eager=False):
        domain = tuple(domain)
        v, c = _cached_var(('int_in', name, domain), lambda: z3.Int(name),
                           lambda v: z3.Or([proxies.eq_const(v, d) for d in domain]))
        self._declare(name, 'int', domain, v)
        self.eng.assume_expr(c)
        return proxies.EagerInt(v) if eager else SymInt(v)

    def real(self, name, lo=None, hi=None, key=False):
        v = z3.Real(name)
        self._declare(name, 'real', (lo, hi), v)
        if lo is not None:
            self.eng.assume_expr(v >= lo)
        if hi is not None:
            self.eng.assume_expr(v <= hi)
        return proxies.KeyReal(v) if key else SymReal(v)

    def flag(self, name):
        v, _ = _cached_var(('bool', name), lambda: z3.Bool(name), None)
        self._declare(name, 'bool', None, v)
        return SymBool(v)

    def choice(self, name, values):
        values = list(values)
        if len(values) == 1:
            return values[0]
        n = len(values)
        v, c = _cached_var(('choice', name, n), lambda: z3.Int(name), lambda v: z3.And(v >= 0, v < n))
        self._declare(name, 'choice', n, v)
        self.eng.assume_expr(c)
        return SymChoice(values, v)

    def pick(self, name, values):
        c = self.choice(name, values)
        return c.conc() if isinstance(c, SymChoice) else c

    def pick_int(self, name, lo, hi):
        return int(self.int(name, lo, hi))

    def pick_flag(self, name):
        return bool(self.flag(name))

    def subset(self, name, universe):
        universe = list(universe)
        bs = [z3.Bool(f'{name}[{i}]') for i in range(len(universe))]
        self._declare(name, 'subset', len(universe), bs)
        return SymSet(dict(zip(universe, bs)))

    def assume(self, cond):
        self.eng.assume(cond)

    def conc(self, x):
        if isinstance(x, SymChoice):
            return x.conc()
        if isinstance(x, SymBool):
            return bool(x)
        if isinstance(x, SymInt):
            return int(x)
        if isinstance(x, SymReal):
            return float(x)
        if isinstance(x, SymSet):
            return x.conc()
        return x

    def check(self, tag, cond, **ctx):
        self.reached.add(tag)
        ok = bool(cond)       # forks when symbolic: the failing side is explored as its own path
        if not ok:
            self.failure = (tag, ctx)
            raise PathEnd()


class ConcSrc(_SrcBase):
    """hands out the concrete values of a recorded model (replay, cross-validation)"""

    def __init__(self, values):
        self.values = values
        self.reached = set()
        self.observations = []

    def _get(self, name):
        if name not in self.values:
            raise HarnessError(f'replay: input {name} not recorded')
        return self.values[name]

    def int(self, name, lo, hi):
        return int(self._get(name))

    def int_in(self, name, domain, eager=False):
        return int(self._get(name))

    def real(self, name, lo=None, hi=None, key=False):
        # exact rational: the code under test then computes exactly what the solver reasons about (Real arithmetic)
        f = Fraction(self._get(name))
        return int(f) if f.denominator == 1 else f

    def flag(self, name):
        return bool(self._get(name))

    def choice(self, name, values):
        values = list(values)
        if len(values) == 1:
            return values[0]
        return values[int(self._get(name))]

    pick = choice
    pick_int = int
    pick_flag = flag

    def subset(self, name, universe):
        universe = list(universe)
        return {universe[i] for i in self._get(name)}

    def assume(self, cond):
        if not cond:
            raise HarnessError('replay: assumption does not hold on the recorded inputs')

    def conc(self, x):
        return x

    def check(self, tag, cond, **ctx):
        self.reached.add(tag)
        if not cond:
            raise CheckFailed(tag, ctx)


# ------------------------------------------------------------------------------------------------ exploration
def _site(tb_exc):
    """deciding call site of an exception: innermost frame inside the code under test"""
    frames = traceback.extract_tb(tb_exc.__traceback__)
    site = None
    for fr in frames:
        fn = fr.filename.replace('\\', '/')
        if '/supvisors/' in fn and '/tests/' not in fn:
            site = f"{fn.split('/supvisors/')[-1]}:{fr.name}"
    if site is None and frames:
        fr = frames[-1]
        site = f'{os.path.basename(fr.filename)}:{fr.name}'
    return site


def _entry_site(tb_exc):
    """entry point of the code under test in a traceback (stable for a loop that is interrupted anywhere)"""
    for fr in traceback.extract_tb(tb_exc.__traceback__):
        fn = fr.filename.replace('\\', '/')
        if '/supvisors/' in fn and '/tests/' not in fn:
            return f"{fn.split('/supvisors/')[-1]}:{fr.name}"
    return 'harness'


def _jsonable(x):
    if isinstance(x, dict):
        return {str(k): _jsonable(v) for k, v in x.items()}
    if isinstance(x, (list, tuple)):
        return [_jsonable(v) for v in x]
    if isinstance(x, (set, frozenset)):
        return sorted((_jsonable(v) for v in x), key=repr)
    if isinstance(x, (str, int, float, bool)) or x is None:
        return x
    if isinstance(x, Fraction):
        return float(x)
    if hasattr(x, 'name') and hasattr(x, 'value'):
        return x.name
    return repr(x)


def signature(harness, tag, ctx):
    """what identifies a failure: harness, assertion tag, and the `sig` / `site` context fields only"""
    out = f'{harness}:{tag}'
    for k in ('sig', 'site'):
        if k in ctx:
            out += f':{k}={_jsonable(ctx[k])}'
    return out


def run_concrete(scenario, params, inputs):
    """one concrete run; returns (failure or None, observations, reached)"""
    src = ConcSrc(inputs)
    prev = proxies._ENGINE[0]
    proxies._ENGINE[0] = None
    try:
        try:
            with _Watchdog():
                scenario(src, **params)
            fail = None
        except PathTimeout as exc:
            fail = ('path-does-not-terminate', {'site': _entry_site(exc), 'limit_s': PATH_LIMIT_S})
        except CheckFailed as exc:
            fail = (exc.tag, exc.ctx)
        except HarnessError:
            raise
        except Exception as exc:
            fail = (f'exception:{type(exc).__name__}', {'site': _site(exc), '_message': str(exc)[:300],
                                                         '_traceback': traceback.format_exc()[-1500:]})
    finally:
        proxies._ENGINE[0] = prev
    return fail, [(n, _jsonable(v)) for n, v in src.observations], src.reached


replay_inputs = run_concrete


class ExploreResult:
    def __init__(self):
        self.paths = 0
        self.infeasible = 0
        self.decisions = 0
        self.checks = 0
        self.sat = self.unsat = self.unknown = 0
        self.solver_s = 0.0
        self.validated = 0
        self.exhaustive = True
        self.failures = {}      # signature -> {'tag','ctx','inputs','count'}
        self.samples = []
        self.reached = {}       # tag -> count of paths
        self.obs_classes = {}   # key -> count
        self.errors = []        # harness errors (strings)
        self.wall_s = 0.0

    def merge(self, o):
        self.paths += o.paths
        self.infeasible += o.infeasible
        self.decisions += o.decisions
        self.checks += o.checks
        self.sat += o.sat
        self.unsat += o.unsat
        self.unknown += o.unknown
        self.solver_s += o.solver_s
        self.validated += o.validated
        self.exhaustive = self.exhaustive and o.exhaustive
        for s, f in o.failures.items():
            if s in self.failures:
                self.failures[s]['count'] += f['count']
            else:
                self.failures[s] = f
        for s in o.samples:
            if len(self.samples) < 6:
                self.samples.append(s)
        for t, c in o.reached.items():
            self.reached[t] = self.reached.get(t, 0) + c
        for t, c in o.obs_classes.items():
            self.obs_classes[t] = self.obs_classes.get(t, 0) + c
        self.errors.extend(o.errors)


def _explore_subtree(scenario, params, harness, seed, prefix, fixed, deadline, max_paths, validate_every,
                     frontier=None, classify=None, resume=False):
    eng = Engine(seed)
    eng.prefix = [list(p) for p in prefix]
    eng.fixed = fixed
    eng.frontier = frontier
    res = ExploreResult()
    jobs = []
    proxies._ENGINE[0] = eng
    rnd = random.Random(seed)
    leftover = None
    timeouts = 0
    try:
        if resume and not eng.backtrack():
            return res, jobs, None
        while True:
            if (deadline is not None and time.time() > deadline) or (max_paths and res.paths >= max_paths):
                res.exhaustive = False
                leftover = ([list(p) for p in eng.prefix], eng.fixed, False)
                break
            src = SymSrc(eng)
            eng.begin_path()
            completed = False
            fail = None
            try:
                try:
                    with _Watchdog():
                        scenario(src, **params)
                    eng.model()          # raises PathEnd if a late assumption made the path infeasible
                    completed = True
                except PathTimeout as exc:
                    fail = ('path-does-not-terminate', {'site': _entry_site(exc), 'limit_s': PATH_LIMIT_S,
                                                        '_traceback': traceback.format_exc()[-1500:]})
                    completed = True
                    timeouts += 1
                except _Frontier:
                    jobs.append([list(p) for p in eng.prefix])
                except PathEnd:
                    if src.failure is not None:
                        fail = src.failure
                        completed = True
                    else:
                        res.infeasible += 1
                except (HarnessError, RecursionError) as exc:
                    res.errors.append(f'{harness}: {type(exc).__name__}: {exc}')
                    completed = False
                except Exception as exc:
                    fail = (f'exception:{type(exc).__name__}', {'site': _site(exc), '_message': str(exc)[:300],
                                                                 '_traceback': traceback.format_exc()[-1500:]})
                    completed = True
                if completed:
                    res.paths += 1
                    for t in src.reached:
                        res.reached[t] = res.reached.get(t, 0) + 1
                    inputs = None
                    if fail is not None:
                        inputs = eng.input_values()
                        sig = signature(harness, fail[0], fail[1])
                        ent = res.failures.get(sig)
                        if ent is None:
                            res.failures[sig] = {'harness': harness, 'tag': fail[0], 'ctx': _jsonable(fail[1]),
                                                 'inputs': inputs, 'count': 1, 'params': _jsonable(params)}
                        else:
                            ent['count'] += 1
                    else:
                        if classify is not None:
                            try:
                                key = str(_jsonable(eng.eval_obs(classify(src.observations))))
                                res.obs_classes[key] = res.obs_classes.get(key, 0) + 1
                            except PathEnd:
                                pass
                        do_val = validate_every and (res.paths <= 40 or rnd.random() < 1.0 / validate_every)
                        if do_val or len(res.samples) < 3:
                            inputs = eng.input_values()
                            if len(res.samples) < 3:
                                res.samples.append({'harness': harness, 'inputs': inputs})
                        if do_val:
                            sym_obs = [(n, _jsonable(eng.eval_obs(v))) for n, v in src.observations]
                            cfail, cobs, _ = run_concrete(scenario, params, inputs)
                            proxies._ENGINE[0] = eng
                            if cfail is not None:
                                res.errors.append(f'{harness}: cross-validation: concrete run fails {cfail[0]} '
                                                  f'{_jsonable(cfail[1])} on inputs {inputs} where the symbolic '
                                                  f'path passed')
                            elif _norm(cobs) != _norm(sym_obs):
                                res.errors.append(f'{harness}: cross-validation: observables differ on inputs '
                                                  f'{inputs}: symbolic {sym_obs} / concrete {cobs}')
                            res.validated += 1
            finally:
                eng.end_path()
            if len(res.errors) > 5 or timeouts >= 1:
                # (a path that does not terminate is a violation by itself: this sub-tree is not explored further, each
                # such path costs PATH_LIMIT_S)
                res.exhaustive = False
                break
            if not eng.backtrack():
                break
    finally:
        proxies._ENGINE[0] = None
    res.decisions = eng.decisions
    res.checks, res.sat, res.unsat, res.unknown = eng.checks, eng.sat, eng.unsat, eng.unknown
    res.solver_s = eng.solver_s
    return res, jobs, leftover


def _norm(obs):
    return json.loads(json.dumps(obs, sort_keys=True, default=repr))


_JOB_CTX = {}


def _worker(i):
    c = _JOB_CTX
    if os.environ.get('VERIF_DEBUG_HANG'):
        import faulthandler
        faulthandler.dump_traceback_later(float(os.environ['VERIF_DEBUG_HANG']), exit=True)
    prefix, fixed, resume = c['jobs'][i]
    deadline = c['deadline']
    if deadline is not None:
        # time slicing: a sub-tree may not use more than its share in one round, so that a budgeted run samples
        # all of them; unfinished sub-trees are handed back and resumed while time remains
        deadline = min(deadline, time.time() + c['slice'])
    res, _, left = _explore_subtree(c['scenario'], c['params'], c['harness'], c['seed'] + i + 1, prefix, fixed,
                                    deadline, c['max_paths'], c['validate_every'], None, c['classify'], resume)
    return res, left


def explore(scenario, params=None, harness='h', seed=0, timeout=None, max_paths=None, workers=None,
            validate_every=20, classify=None):
    """Explore every feasible path of scenario(src, **params).  Returns an ExploreResult."""
    params = params or {}
    t0 = time.time()
    deadline = t0 + timeout if timeout else None
    workers = workers if workers is not None else int(os.environ.get('VERIF_WORKERS') or min(16, os.cpu_count() or 1))
    total = ExploreResult()
    if workers <= 1:
        res, _, left = _explore_subtree(scenario, params, harness, seed, [], 0, deadline, max_paths, validate_every,
                                        None, classify)
        total.merge(res)
        total.wall_s = time.time() - t0
        return total
    # parent: expand the decision tree to a frontier (incrementally, sub-tree by sub-tree), then distribute
    jobs = [[]]
    ok = True
    for _round in range(8):
        newjobs = []
        for j in jobs:
            res, sub, left = _explore_subtree(scenario, params, harness, seed, j, len(j), deadline, max_paths,
                                              validate_every, len(j) + (6 if _round == 0 else 3), classify)
            total.merge(res)
            newjobs.extend(sub)
            if not res.exhaustive:
                ok = False
                break
        jobs = newjobs
        if not ok or not jobs or len(jobs) >= 8 * workers:
            break
    res = total
    if jobs and res.exhaustive:
        random.Random(seed).shuffle(jobs)
        pending = [(j, len(j), False) for j in jobs]
        ctx = multiprocessing.get_context('fork')
        while pending:
            if deadline is not None and time.time() >= deadline:
                total.exhaustive = False
                break
            nw = min(workers, len(pending))
            _JOB_CTX.update(scenario=scenario, params=params, harness=harness, seed=seed, jobs=pending,
                            deadline=deadline, max_paths=(max_paths // len(jobs) + 1) if max_paths else None,
                            validate_every=validate_every, classify=classify,
                            slice=(max(2.0, (deadline - time.time()) * nw / len(pending) * 0.6)
                                   if deadline else None))
            leftovers = []
            with ctx.Pool(nw) as pool:
                for r, left in pool.imap_unordered(_worker, range(len(pending)), chunksize=1):
                    ex = r.exhaustive
                    r.exhaustive = True
                    total.merge(r)
                    if not ex:
                        if left is not None and not max_paths:
                            leftovers.append(left)
                        else:
                            total.exhaustive = False
            pending = leftovers
    total.wall_s = time.time() - t0
    return total
