"""Proxy values wrapping z3 terms.  Proxies are immutable and never subclass int/str/bool (CPython would read the C
value of a subclass directly and concretise silently)."""
import math
from fractions import Fraction

import z3

_ENGINE = [None]   # the engine currently exploring (set by engine.explore)


def eng():
    e = _ENGINE[0]
    if e is None:
        raise RuntimeError('symbolic proxy used outside an exploration')
    return e


_IV = {}      # int -> z3 IntVal (kept alive for the whole run: AST ids stay stable)
_EQC = {}     # (ast id, int) -> (z3 term `e == v`, kept-alive e)


def intval(v):
    t = _IV.get(v)
    if t is None:
        t = _IV[v] = z3.IntVal(v)
    return t


def eq_const(e, v):
    """cached z3 term e == v for an Int term and a python int"""
    key = (e.get_id(), v)
    hit = _EQC.get(key)
    if hit is None:
        hit = _EQC[key] = (e == intval(v), e)
    return hit[0]


def _pin(e):
    """value of the term `e` if the current path condition already pins it to a numeral, else None"""
    en = _ENGINE[0]
    if en is None:
        return None
    return en._values.get(e.get_id())


def is_sym(x):
    return isinstance(x, (SymBool, SymInt, SymReal, SymChoice, SymSet))


def _num(x):
    """z3 arithmetic term of a python/proxy number, or None."""
    if isinstance(x, (SymInt, SymReal)):
        return x.e
    if isinstance(x, SymBool):
        return z3.If(x.e, z3.IntVal(1), z3.IntVal(0))
    if isinstance(x, bool):
        return z3.IntVal(int(x))
    if isinstance(x, int):
        return z3.IntVal(x)
    if isinstance(x, float):
        if x != x or x in (math.inf, -math.inf):
            return None
        return z3.RealVal(Fraction(x))
    if isinstance(x, Fraction):
        return z3.RealVal(x)
    return None


def _boolterm(x):
    if isinstance(x, SymBool):
        return x.e
    if isinstance(x, bool):
        return z3.BoolVal(x)
    return None


def _is_real(t):
    return t.sort().kind() == z3.Z3_REAL_SORT


def _toreal(t):
    return t if _is_real(t) else z3.ToReal(t)


def _wrap_num(t):
    return SymReal(t) if _is_real(t) else SymInt(t)


class SymBool:
    """`pin` = (term, python value, polarity): deciding this condition with truth value `polarity` pins term=value"""
    __slots__ = ('e', 'pin')

    def __init__(self, e, pin=None):
        self.e = e
        self.pin = pin

    def __bool__(self):
        return eng().branch(self.e, self.pin)

    def __eq__(self, o):
        oe = _boolterm(o)
        if oe is not None:
            return SymBool(self.e == oe)
        on = _num(o)
        if on is not None:
            return SymBool(_num(self) == on)
        return False

    def __ne__(self, o):
        r = self.__eq__(o)
        return SymBool(z3.Not(r.e)) if isinstance(r, SymBool) else True

    def __hash__(self):
        return hash(bool(self))

    def __invert__(self):
        return SymBool(z3.Not(self.e))

    def __and__(self, o):
        oe = _boolterm(o)
        return SymBool(z3.And(self.e, oe)) if oe is not None else NotImplemented

    __rand__ = __and__

    def __or__(self, o):
        oe = _boolterm(o)
        return SymBool(z3.Or(self.e, oe)) if oe is not None else NotImplemented

    __ror__ = __or__

    def __xor__(self, o):
        oe = _boolterm(o)
        return SymBool(z3.Xor(self.e, oe)) if oe is not None else NotImplemented

    __rxor__ = __xor__

    def __add__(self, o):
        return SymInt(_num(self)).__add__(o)

    __radd__ = __add__

    def __int__(self):
        return int(bool(self))

    def __index__(self):
        return int(bool(self))

    def __repr__(self):
        return '<SymBool>'

    def __format__(self, spec):
        return '<symbool>'


_PLAIN = (int, float, bool, Fraction)


class _SymNum:
    __slots__ = ('e',)

    def __init__(self, e):
        self.e = e

    def _bin(self, o, f):
        if type(o) in _PLAIN:
            pv = _pin(self.e)
            if pv is not None:
                return f(pv, o)
        oe = _num(o)
        if oe is None:
            return NotImplemented
        return _wrap_num(f(self.e, oe))

    def _cmp(self, o, f):
        if type(o) in _PLAIN:
            pv = _pin(self.e)
            if pv is not None:
                return f(pv, o)
        oe = _num(o)
        if oe is None:
            if isinstance(o, float):   # nan / inf
                return f(_NumStandIn(self), o)
            return NotImplemented
        return SymBool(f(self.e, oe))

    def __eq__(self, o):
        to = type(o)
        if to in _PLAIN:
            pv = _pin(self.e)
            if pv is not None:
                return pv == o
            if to is int and isinstance(self, SymInt):
                return SymBool(eq_const(self.e, o), (self.e, o, True))
        elif to not in _SYMNUM:
            if not isinstance(o, (int, float, Fraction, SymBool, _SymNum)):
                return False
        oe = _num(o)
        if oe is None:
            return False
        return SymBool(self.e == oe)

    def __ne__(self, o):
        to = type(o)
        if to in _PLAIN:
            pv = _pin(self.e)
            if pv is not None:
                return pv != o
            if to is int and isinstance(self, SymInt):
                return SymBool(z3.Not(eq_const(self.e, o)), (self.e, o, False))
        oe = _num(o)
        if oe is None:
            return True
        return SymBool(self.e != oe)

    def __lt__(self, o):
        return self._cmp(o, lambda a, b: a < b)

    def __le__(self, o):
        return self._cmp(o, lambda a, b: a <= b)

    def __gt__(self, o):
        return self._cmp(o, lambda a, b: a > b)

    def __ge__(self, o):
        return self._cmp(o, lambda a, b: a >= b)

    def __add__(self, o):
        return self._bin(o, lambda a, b: a + b)

    __radd__ = __add__

    def __sub__(self, o):
        return self._bin(o, lambda a, b: a - b)

    def __rsub__(self, o):
        return self._bin(o, lambda a, b: b - a)

    def __mul__(self, o):
        return self._bin(o, lambda a, b: a * b)

    __rmul__ = __mul__

    def __neg__(self):
        return _wrap_num(-self.e)

    def __pos__(self):
        return self

    def __abs__(self):
        return _wrap_num(z3.If(self.e >= 0, self.e, -self.e))

    def __truediv__(self, o):
        oe = _num(o)
        if oe is None:
            return NotImplemented
        if not is_sym(o) and o == 0:
            raise ZeroDivisionError('division by zero')
        if is_sym(o) and eng().branch(oe == 0):
            raise ZeroDivisionError('division by zero')
        return SymReal(_toreal(self.e) / _toreal(oe))

    def __rtruediv__(self, o):
        oe = _num(o)
        if oe is None:
            return NotImplemented
        if eng().branch(self.e == 0):
            raise ZeroDivisionError('division by zero')
        return SymReal(_toreal(oe) / _toreal(self.e))

    def __bool__(self):
        return eng().branch(self.e != 0)

    def __hash__(self):
        return hash(eng().concretize(self.e))

    def __float__(self):
        return float(eng().concretize(self.e))

    def __int__(self):
        v = eng().concretize(self.e)
        return int(v)

    def __format__(self, spec):
        return '<sym>'

    def __repr__(self):
        return f'<{type(self).__name__}>'

    __str__ = __repr__


class _NumStandIn:
    """helper used only for comparisons with nan/inf: behaves as any finite number."""
    def __init__(self, s):
        self.s = s

    def __lt__(self, o):
        return o == math.inf

    def __le__(self, o):
        return o == math.inf

    def __gt__(self, o):
        return o == -math.inf

    def __ge__(self, o):
        return o == -math.inf


class SymInt(_SymNum):
    __slots__ = ()

    def __index__(self):
        return int(eng().concretize(self.e))

    def __floordiv__(self, o):
        if isinstance(o, int) and not isinstance(o, bool) and o > 0:
            return SymInt(self.e / z3.IntVal(o))       # z3 integer division is floor for a positive divisor
        if isinstance(o, SymInt):
            k = int(o)
            return self.__floordiv__(k)
        if isinstance(o, int):
            return int(self) // o
        return NotImplemented

    def __mod__(self, o):
        if isinstance(o, int) and not isinstance(o, bool) and o > 0:
            return SymInt(self.e % z3.IntVal(o))
        if isinstance(o, SymInt):
            return self.__mod__(int(o))
        if isinstance(o, int):
            return int(self) % o
        return NotImplemented

    def __round__(self, n=None):
        return self

    def __trunc__(self):
        return self

    def __floor__(self):
        return self

    def __ceil__(self):
        return self


class EagerInt(SymInt):
    """SymInt whose comparisons fork at once and return plain booleans.  For code that inspects the *type* of a
    comparison result (`type(x) is bool`) or returns the operand of `and` / `or`: a lazy SymBool would leak there."""
    __slots__ = ()

    def __eq__(self, o):
        r = SymInt.__eq__(self, o)
        return bool(r)

    def __ne__(self, o):
        r = SymInt.__ne__(self, o)
        return bool(r)

    def __hash__(self):
        return SymInt.__hash__(self)

    def _cmp(self, o, f):
        r = SymInt._cmp(self, o, f)
        return r if r is NotImplemented else bool(r)


class SymReal(_SymNum):
    __slots__ = ()

    def _bracket(self, kind):
        e = eng()
        k = e.fresh_aux_int(kind)
        kr = z3.ToReal(k)
        if kind == 'ceil':
            e.assume_expr(z3.And(kr - 1 < self.e, self.e <= kr))
        else:  # floor
            e.assume_expr(z3.And(kr <= self.e, self.e < kr + 1))
        return SymInt(k)

    def __ceil__(self):
        return self._bracket('ceil')

    def __floor__(self):
        return self._bracket('floor')

    def __trunc__(self):
        if eng().branch(self.e >= 0):
            return self._bracket('floor')
        return self._bracket('ceil')

    def __int__(self):
        return int(self.__trunc__())

    def __round__(self, n=None):
        if n is None:
            return (self + Fraction(1, 2)).__floor__()
        return self


class KeyReal(SymReal):
    """SymReal usable as a dictionary key without being concretised: hashes by term identity.  Sound as long as the
    very same value object is used for storing and looking up (dict compares identity first); comparisons and
    arithmetic stay symbolic."""
    __slots__ = ()

    def __hash__(self):
        return hash(('KeyReal', self.e.get_id()))


class SymChoice:
    """One of a finite list of concrete Python objects, chosen by a z3 Int index.  Equality is lazy (a SymBool);
    hashing, truthiness, ``str`` and unknown attribute access concretise (an n-way fork decided by the solver)."""
    __slots__ = ('values', 'e')

    def __init__(self, values, e):
        object.__setattr__(self, 'values', list(values))
        object.__setattr__(self, 'e', e)

    def __setattr__(self, k, v):
        raise AttributeError('SymChoice is immutable')

    def conc(self):
        return self.values[int(eng().concretize(self.e))]

    def map(self, f):
        return SymChoice([f(v) for v in self.values], self.e)

    def _eq_term(self, o):
        pv = _pin(self.e)
        if pv is not None and not is_sym(o):
            return z3.BoolVal(_same(self.values[pv], o))
        if isinstance(o, SymChoice):
            pairs = [z3.And(self.e == i, o.e == j)
                     for i, a in enumerate(self.values) for j, b in enumerate(o.values) if _same(a, b)]
            return z3.Or(pairs) if pairs else z3.BoolVal(False)
        if is_sym(o):
            return None
        idx = [i for i, a in enumerate(self.values) if _same(a, o)]
        if not idx:
            return z3.BoolVal(False)
        if len(idx) == 1:
            return eq_const(self.e, idx[0])
        return z3.Or([eq_const(self.e, i) for i in idx])

    def _single(self, o):
        """index of the only value equal to the concrete object o, or None"""
        if is_sym(o):
            return None
        idx = [i for i, a in enumerate(self.values) if _same(a, o)]
        return idx[0] if len(idx) == 1 else None

    def __eq__(self, o):
        pv = _pin(self.e)
        if pv is not None and not is_sym(o):
            return _same(self.values[pv], o)
        k = self._single(o)
        if k is not None:
            return SymBool(eq_const(self.e, k), (self.e, k, True))
        t = self._eq_term(o)
        if t is None:
            return self.conc() == o
        return SymBool(t)

    def __ne__(self, o):
        pv = _pin(self.e)
        if pv is not None and not is_sym(o):
            return not _same(self.values[pv], o)
        k = self._single(o)
        if k is not None:
            return SymBool(z3.Not(eq_const(self.e, k)), (self.e, k, False))
        t = self._eq_term(o)
        if t is None:
            return self.conc() != o
        return SymBool(z3.Not(t))

    def __hash__(self):
        return hash(self.conc())

    def __bool__(self):
        truthy = [i for i, v in enumerate(self.values) if v]
        if len(truthy) == len(self.values):
            return True
        if not truthy:
            return False
        return eng().branch(z3.Or([self.e == i for i in truthy]))

    def __str__(self):
        return str(self.conc())

    def __repr__(self):
        return '<SymChoice>'

    def __format__(self, spec):
        return '<sym>'

    def __getattr__(self, attr):
        if attr.startswith('__'):
            raise AttributeError(attr)
        if attr in ('name', 'value'):
            return self.map(lambda v: getattr(v, attr))
        return getattr(self.conc(), attr)

    # ordering / arithmetic are delegated to the concrete value
    def __lt__(self, o):
        return self.conc() < o

    def __le__(self, o):
        return self.conc() <= o

    def __gt__(self, o):
        return self.conc() > o

    def __ge__(self, o):
        return self.conc() >= o

    def __len__(self):
        return len(self.conc())

    def __iter__(self):
        return iter(self.conc())

    def __contains__(self, k):
        return k in self.conc()

    def __getitem__(self, k):
        return self.conc()[k]

    def __add__(self, o):
        return self.conc() + o

    def __radd__(self, o):
        return o + self.conc()

    def __sub__(self, o):
        return self.conc() - o

    def __rsub__(self, o):
        return o - self.conc()

    def __mul__(self, o):
        return self.conc() * o

    __rmul__ = __mul__

    def __float__(self):
        return float(self.conc())

    def __int__(self):
        return int(self.conc())


def _same(a, b):
    try:
        if a is b:
            return True
        if type(a) is not type(b) and not (isinstance(a, (int, float)) and isinstance(b, (int, float))
                                           and not isinstance(a, bool) and not isinstance(b, bool)):
            return False
        return bool(a == b)
    except Exception:
        return False


class SymSet:
    """Symbolic subset of a concrete universe: one z3 Bool per element."""
    __slots__ = ('mem',)
    __hash__ = None

    def __init__(self, mem):
        self.mem = dict(mem)

    def _term(self, k):
        return self.mem.get(k, z3.BoolVal(False))

    def __eq__(self, o):
        if isinstance(o, SymSet):
            keys = list(dict.fromkeys(list(self.mem) + list(o.mem)))
            return SymBool(z3.And([self._term(k) == o._term(k) for k in keys]) if keys else z3.BoolVal(True))
        if isinstance(o, (set, frozenset)):
            keys = list(dict.fromkeys(list(self.mem) + sorted(o, key=repr)))
            return SymBool(z3.And([self._term(k) == z3.BoolVal(k in o) for k in keys]) if keys else z3.BoolVal(True))
        return False

    def __ne__(self, o):
        r = self.__eq__(o)
        return SymBool(z3.Not(r.e)) if isinstance(r, SymBool) else True

    def __contains__(self, k):
        if is_sym(k):
            k = k.conc() if isinstance(k, SymChoice) else int(k)
        if k in self.mem:
            return eng().branch(self.mem[k])
        return False

    def contains(self, k):
        """lazy membership"""
        return SymBool(self._term(k))

    def conc(self):
        return {k for k, m in self.mem.items() if eng().branch(m)}

    def __iter__(self):
        return iter([k for k, m in self.mem.items() if eng().branch(m)])

    def __len__(self):
        return len(self.conc())

    def size(self):
        return SymInt(z3.Sum([z3.If(m, 1, 0) for m in self.mem.values()]) if self.mem else z3.IntVal(0))

    def __bool__(self):
        return eng().branch(z3.Or(list(self.mem.values()))) if self.mem else False

    def issubset(self, o):
        if isinstance(o, SymSet):
            return SymBool(z3.And([z3.Implies(m, o._term(k)) for k, m in self.mem.items()]))
        return SymBool(z3.And([z3.Not(m) for k, m in self.mem.items() if k not in o] or [z3.BoolVal(True)]))

    def copy(self):
        return SymSet(self.mem)

    def discard(self, k):
        self.mem.pop(k, None)

    def remove(self, k):
        if k not in self:
            raise KeyError(k)
        self.mem.pop(k, None)

    def add(self, k):
        self.mem[k] = z3.BoolVal(True)

    def __repr__(self):
        return f'SymSet({list(self.mem)})'

    def __format__(self, spec):
        return '<symset>'


_SYMNUM = (SymInt, SymReal, SymBool)


def sym_ite(c, a, b):
    """if-then-else on proxies without forking (numbers and booleans only)."""
    ce = _boolterm(c)
    if ce is None:
        return a if c else b
    if isinstance(c, bool):
        return a if c else b
    ba, bb = _boolterm(a), _boolterm(b)
    if ba is not None and bb is not None:
        return SymBool(z3.If(ce, ba, bb))
    na, nb = _num(a), _num(b)
    if na is not None and nb is not None:
        if _is_real(na) != _is_real(nb):
            na = na if _is_real(na) else z3.ToReal(na)
            nb = nb if _is_real(nb) else z3.ToReal(nb)
        return _wrap_num(z3.If(ce, na, nb))
    return a if c else b


def ssize(s):
    """size of a set or SymSet without forking"""
    return s.size() if isinstance(s, SymSet) else len(s)


def scontains(s, k):
    """membership in a set or SymSet without forking"""
    return s.contains(k) if isinstance(s, SymSet) else (k in s)


def snot(b):
    """logical negation of a bool or SymBool without forking"""
    return ~b if isinstance(b, SymBool) else (not b)


def sor(a, b):
    if isinstance(a, SymBool) or isinstance(b, SymBool):
        return a | b
    return bool(a) or bool(b)


def sand(a, b):
    if isinstance(a, SymBool) or isinstance(b, SymBool):
        return a & b
    return bool(a) and bool(b)
