#!/bin/sh
# Builds /verif/.venv: an overlay on /venv (the repository's interpreter and dependencies) plus z3-solver and
# crosshair-tool from the offline wheelhouse. Offline, idempotent, ~10 s.
set -e
HERE="$(cd "$(dirname "$0")" && pwd)"
VENV="$HERE/.venv"
if [ -x "$VENV/bin/python" ] && "$VENV/bin/python" -c "import z3, supervisor" 2>/dev/null; then
    exit 0
fi
rm -rf "$VENV"
/venv/bin/python -m venv "$VENV"
SP="$VENV/lib/python3.12/site-packages"
printf "import site; site.addsitedir('/venv/lib/python3.12/site-packages')\n" > "$SP/base.pth"
PIP_NO_INDEX=1 "$VENV/bin/pip" install -q --no-index --find-links /opt/veriftools/wheels z3-solver crosshair-tool >/dev/null 2>&1 \
  || PIP_NO_INDEX=1 "$VENV/bin/pip" install -q --no-index --find-links /opt/veriftools/wheels z3-solver
"$VENV/bin/python" -c "import z3, supervisor; print('verif venv ready: z3', z3.get_version_string())"
